#!/bin/sh
# usage: confirm_mutant.sh <worktree> <mutant-dir>    (independent confirmation of a seeded change in a scratch worktree)
# checks: patch applies+builds, existing tests pass with it, demo FAILS with it and PASSES without it. Writes <mutant-dir>/confirm.log
WT="$1"; M="$2"; LOG="$M/confirm.log"; J=${J:-6}
exec > "$LOG" 2>&1
cd "$WT" || exit 9
git checkout -q -- . 
git apply "$M/patch.diff" || { echo "CONFIRM: patch does not apply"; exit 1; }
cmake --build _build -j$J > "$M/build_with.log" 2>&1 || { echo "CONFIRM: build failed"; git checkout -q -- .; exit 1; }
ctest --test-dir _build -j$J --timeout 900 > "$M/ctest_with.log" 2>&1; trc=$?
tail -3 "$M/ctest_with.log"
demo() {
  g++ -std=c++17 -O1 -DNDEBUG -I"$WT/src" -I"$WT/_build/src" -I/usr/include/eigen3 "$M/demo.cpp" -L"$WT/_build/src/ompl" -lompl -Wl,-rpath,"$WT/_build/src/ompl" -lboost_serialization -lboost_filesystem -lboost_system -lpthread -o "$M/demo_bin" || return 99
  timeout 600 "$M/demo_bin" > "$M/demo_out_$1.log" 2>&1; return $?
}
demo with; drc_with=$?
git checkout -q -- .
cmake --build _build -j$J > "$M/build_without.log" 2>&1
demo without; drc_without=$?
rm -f "$M/demo_bin"
echo "CONFIRM: tests_rc=$trc demo_with_rc=$drc_with demo_without_rc=$drc_without"
if [ $trc -eq 0 ] && [ $drc_with -ne 0 ] && [ $drc_with -ne 99 ] && [ $drc_without -eq 0 ]; then echo "CONFIRM: OK"; else echo "CONFIRM: NOT CONFIRMED"; fi
