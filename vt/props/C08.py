"""C08 bounds and samplers (DESIGN §4 C08)."""
from vt.props import common_spaces as cs
from vt.pipeline import Query
CLAIM = ('Real enforceBounds/satisfiesBounds and default samplers (uniform, near, Gaussian) of SO(2), R^n (n<=2), Time and Discrete, with '
         'symbolic bounds (zero-width, negative, up to 1e6), every in-bounds centre, every distance/stddev in range and every RNG draw: '
         'enforcing leaves in-bounds states bit-identical, maps every finite state into the bounds and is idempotent; every sample satisfies the bounds; each of the six valid-state samplers (sample and sampleNear) returns success only with a valid in-bounds state, '
         'for every validity/clearance assignment to the states handed out by a stub base sampler / interpolation / motion validator.')
OUT = 'SO3 normalisation, NaN/inf inputs, centre states outside bounds, statistical uniformity, compound/subspace samplers (see compound queries when present)'
ASSUMPTIONS = ['fmod is a contract stub (vt/stubs/fmod.c)', 'uniform canonical draw is any double in [0,1), normal draw any finite double (vt/include/vt_rng_env.h)']
def queries(tier):
    qs = [cs.so2('enforce', tier, bound='every finite double'), cs.so2('sample_uniform', tier, bound='every RNG draw'),
          cs.so2('sample_near', tier, bound='every in-bounds centre, distance in [0,1e6], every RNG draw'),
          cs.so2('sample_gaussian', tier, bound='every in-bounds centre, stddev in [0,1e6], every finite normal draw'),
          cs.rv('enforce', tier, 2, bound='dim 2, symbolic bounds, every finite state'),
          cs.rv('sample_uniform', tier, 1, bound='dim 1, symbolic bounds, every draw', backends=('cadical', 'kissat')),
          cs.rv('sample_near', tier, 1, bound='dim 1, symbolic bounds, every in-bounds centre, distance in [0,4e6]', backends=('cadical', 'kissat')),
          cs.rv('sample_gaussian', tier, 2, bound='dim 2, symbolic bounds, every finite normal draw'),
          cs.misc('time_enforce', tier, bound='bounded/unbounded, every finite double'),
          cs.misc('time_sampler', tier, bound='all three sampling modes, every draw', backends=('cadical', 'kissat')),
          cs.misc('discrete_enforce', tier, bound='every int')]
    for w, nm in ((0, 'uniform'), (1, 'near'), (2, 'gaussian')):
        qs.append(cs.misc('discrete_sampler', tier, name='discrete_sampler[%s]' % nm, defines={'WHICH': w}, bound='symbolic bounds, every draw', backends=('cadical', 'kissat')))
    qs.append(cs.compound('bounds', tier, bound='3 stub components'))
    for m, nm in ((1, 'uniform'), (2, 'near'), (3, 'gaussian')):
        qs.append(cs.compound('sampler', tier, name='compound_sampler[%s]' % nm, defines={'MODE': m}, bound='3 stub component samplers, symbolic weights incl. zeros'))
    names = ['uniform', 'gaussian', 'obstacle_based', 'bridge_test', 'min_clearance', 'max_clearance']
    tus = ['src/ompl/base/src/SpaceInformation.cpp'] + ['src/ompl/base/samplers/src/%s.cpp' % n for n in ('UniformValidStateSampler', 'GaussianValidStateSampler', 'ObstacleBasedValidStateSampler',
                                                               'BridgeTestValidStateSampler', 'MinimumClearanceValidStateSampler', 'MaximizeClearanceValidStateSampler')]
    for kind, nm in enumerate(names):
        for near in (0, 1):
            for att in ([2] if tier == 'quick' else [1, 2, 3, 4]):
                qs.append(Query('valid_%s[%s,attempts=%d]' % (nm, 'near' if near else 'sample', att), 'C08_valid.cpp', 'harness_valid_sampler', tus=tus,
                                defines={'KIND': kind, 'NEAR': near, 'ATT': att}, unwind=att + 3, timeout=300 if tier == 'quick' else 900,
                                bound='%d attempts (and improve attempts), every validity/clearance assignment to the states the environment hands out' % att))
    return qs
