"""C08 bounds and samplers (DESIGN §4 C08)."""
from vt.props import common_spaces as cs
CLAIM = 'enforceBounds/satisfiesBounds and the default samplers of float-light spaces on the real code, RNG draws symbolic'
OUT = 'SO3 normalisation, NaN/inf inputs, centre states outside bounds, statistical uniformity'
ASSUMPTIONS = ['fmod is a contract stub (vt/stubs/fmod.c)', 'uniform canonical draw is any double in [0,1), normal draw any finite double (vt/include/vt_rng_env.h)']
def queries(tier):
    return [cs.so2('enforce', tier, bound='every finite double'), cs.so2('sample_uniform', tier, bound='every RNG draw'),
            cs.so2('sample_near', tier, bound='every in-bounds centre, distance in [0,1e6], every RNG draw'),
            cs.so2('sample_gaussian', tier, bound='every in-bounds centre, stddev in [0,1e6], every finite normal draw')]
