"""C08 bounds and samplers (DESIGN §4 C08)."""
from vt.props import common_spaces as cs
CLAIM = ('Real enforceBounds/satisfiesBounds and default samplers (uniform, near, Gaussian) of SO(2), R^n (n<=2), Time and Discrete, with '
         'symbolic bounds (zero-width, negative, up to 1e6), every in-bounds centre, every distance/stddev in range and every RNG draw: '
         'enforcing leaves in-bounds states bit-identical, maps every finite state into the bounds and is idempotent; every sample satisfies the bounds.')
OUT = 'SO3 normalisation, NaN/inf inputs, centre states outside bounds, statistical uniformity, compound/subspace samplers and valid-state samplers (see C08 valid-sampler queries when present)'
ASSUMPTIONS = ['fmod is a contract stub (vt/stubs/fmod.c)', 'uniform canonical draw is any double in [0,1), normal draw any finite double (vt/include/vt_rng_env.h)']
def queries(tier):
    qs = [cs.so2('enforce', tier, bound='every finite double'), cs.so2('sample_uniform', tier, bound='every RNG draw'),
          cs.so2('sample_near', tier, bound='every in-bounds centre, distance in [0,1e6], every RNG draw'),
          cs.so2('sample_gaussian', tier, bound='every in-bounds centre, stddev in [0,1e6], every finite normal draw'),
          cs.rv('enforce', tier, 2, bound='dim 2, symbolic bounds, every finite state'),
          cs.rv('sample_uniform', tier, 1, bound='dim 1, symbolic bounds, every draw', backends=('cadical', 'kissat')),
          cs.rv('sample_near', tier, 1, bound='dim 1, symbolic bounds, every in-bounds centre, distance in [0,4e6]', backends=('cadical', 'kissat')),
          cs.rv('sample_gaussian', tier, 2, bound='dim 2, symbolic bounds, every finite normal draw'),
          cs.misc('time_enforce', tier, bound='bounded/unbounded, every finite double'),
          cs.misc('time_sampler', tier, bound='all three sampling modes, every draw', backends=('cadical', 'kissat')),
          cs.misc('discrete_enforce', tier, bound='every int')]
    for w, nm in ((0, 'uniform'), (1, 'near'), (2, 'gaussian')):
        qs.append(cs.misc('discrete_sampler', tier, name='discrete_sampler[%s]' % nm, defines={'WHICH': w}, bound='symbolic bounds, every draw', backends=('cadical', 'kissat')))
    return qs
