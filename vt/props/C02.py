"""C02 control propagation kernels (DESIGN §4 C02)."""
from vt.pipeline import Query

CLAIM = ('Real control::SpaceInformation::propagate / propagateWhileValid (single-state and vector forms) and SimpleDirectedControlSampler::'
         'getBestControl against a stub propagator (successor on a step counter) for EVERY validity assignment to the reached states, both '
         'propagation directions, every step size, every sampled duration in [min,max] and every distance table: each propagator call lasts '
         'exactly one signed step; the returned count is the number of steps before the first invalid state and the result is exactly the state '
         'after that many steps (vector form: exactly the valid prefix, nothing else left allocated); getBestControl returns a control, a '
         'duration and a state that agree (the state is what the control reaches in exactly that many steps, all of them valid).')
OUT = ('the solve loops of all control planners (RRT, SST, EST, KPIECE1, PDST, Syclop*) and their bookkeeping of durations, PathControl::check/'
       'interpolate, control-space bound sampling, ODE solvers, aliased result==state in propagateWhileValid; step counts above the bound')
ASSUMPTIONS = ['the state propagator, validity checker, control sampler and distance are environment stubs']
TUS = ['src/ompl/control/src/SpaceInformation.cpp', 'src/ompl/control/src/SimpleDirectedControlSampler.cpp', 'src/ompl/base/src/SpaceInformation.cpp']


def queries(tier):
    qs = []
    to = 300 if tier == 'quick' else 1200
    for st in ([0, 1, 3, 5] if tier == 'quick' else [0, 1, 2, 3, 4, 5, 6, 8, 12]):
        for e in ('propagate', 'propagate_while_valid', 'propagate_while_valid_vector'):
            qs.append(Query('%s[steps=%d]' % (e, st), 'C02_control.cpp', 'harness_' + e, tus=TUS, defines={'STEPS': st, 'VT_VEC_CAP': st + 4}, stdmodel=('vec',),
                            unwind=st + 5, timeout=to, checks='none', bound='|steps|=%d, both directions, every validity assignment' % st))
    for st in ([2, 3] if tier == 'quick' else [1, 2, 3, 4, 5]):
        for ns in ([1, 2, 3] if tier == 'quick' else [1, 2, 3]):
            qs.append(Query('best_control[maxsteps=%d,samples=%d]' % (st, ns), 'C02_control.cpp', 'harness_best_control', tus=TUS,
                            defines={'STEPS': st, 'NSAMP': ns, 'VT_VEC_CAP': st + 4}, stdmodel=('vec',), unwind=st + 5, timeout=to, checks='none',
                            bound='durations within [min,max] <= %d, %d control samples, every validity/distance assignment' % (st, ns)))
    return qs
