"""C03 interruption/resume/clear: input-state bookkeeping kernel (DESIGN §4 C01/C03)."""
from vt.pipeline import Query

CLAIM = ('Real PlannerInputStates::nextStart/haveMoreStartStates/restart (the mechanism by which a resumed solve() does not re-add start states '
         'and a restarted one sees them again) for n start states, EVERY bounds/validity assignment and EVERY sequence of n+2 calls drawn from '
         '{nextStart, restart}: start states are handed out in order, each at most once until restart(), exactly the in-bounds and valid ones, '
         'validity is only asked for in-bounds states, null once none remains; plus the termination-condition semantics of C18 that decide when '
         'solve() stops. Interruption of a real solve loop: geometric::RRT::solve with the termination condition first true at evaluation k = 0..2 (before the first iteration included) under a fully '
         'nondeterministic environment returns at that evaluation with a status that matches what the problem definition received, never reports an empty path, and leaks or double-frees no state.')
OUT = ('every planner other than geometric::RRT; solve()/clear()/clearQuery()/setProblemDefinition histories and resumed solves, memory leaks/double frees on interruption, "solve() '
       'again only keeps or improves the solution": whole-planner runs are outside the encodable fragment (see C01)')
ASSUMPTIONS = ['state space and validity checker are environment stubs; logging and std::stringstream are empty stubs']
TUS = ['src/ompl/base/src/Planner.cpp', 'src/ompl/base/goals/src/GoalRegion.cpp', 'src/ompl/geometric/src/PathGeometric.cpp', 'src/ompl/base/src/SpaceInformation.cpp']


def queries(tier):
    to = 300 if tier == 'quick' else 1200
    qs = []
    for ns in ([0, 1, 2, 3] if tier == 'quick' else [0, 1, 2, 3, 4, 5]):
        qs.append(Query('next_start[n=%d]' % ns, 'C01_kernels.cpp', 'harness_next_start', tus=TUS, unwind=ns + 6, timeout=to, stdmodel=('vec',), defines={'NS': ns, 'VT_VEC_CAP': ns + 4},
                        checks='none', bound='%d start states, every bounds/validity assignment, every sequence of %d nextStart/restart calls' % (ns, ns + 2)))
    # interruption of a real solve loop (same unit as C01: geometric::RRT::solve): see vt/props/C01.py
    from vt.props import C01
    qs += [q for q in C01.queries(tier) if q.name.startswith('rrt_solve') and 'starts=1' in q.name]
    return qs
