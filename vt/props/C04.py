"""C04 costs and solution ranking (DESIGN §4 C04)."""
from vt.pipeline import Query

CLAIM = ('Real PlannerSolution::operator< against a reference key written from the property (exact before approximate, approximate by '
         'smaller difference, objective-satisfying first, then better cost / shorter length) for EVERY triple of solutions (all flags, all '
         'non-NaN doubles incl. infinities) under no objective, a minimising objective and the maximising clearance objective, plus the '
         'strict-weak-order laws std::sort relies on; objective kernels isCostBetterThan/isSatisfied/isCostEquivalentTo/betterCost/'
         'combineCosts/identity/infinite; PathGeometric::cost and ::length equal the ordered fold over consecutive states (stub objective '
         'and stub metric with symbolic tables; float additions abstracted as uninterpreted for the equality); path length is never below '
         'the straight-line distance for every integer-valued metric obeying the triangle law.')
OUT = ('every planner\'s bookkeeping of its incumbent and of deferred cost propagation (whole-planner runs), "best cost never gets worse across '
       'solve() calls", NaN costs, multi-objective weights, state-cost-integral/mechanical-work motion costs')
ASSUMPTIONS = ['objective objects are zeroed buffers carrying the real vtables (constructors build strings/functions not read here)']
TUS = ['src/ompl/base/src/ProblemDefinition.cpp', 'src/ompl/base/src/OptimizationObjective.cpp',
       'src/ompl/base/objectives/src/PathLengthOptimizationObjective.cpp', 'src/ompl/base/objectives/src/MaximizeMinClearanceObjective.cpp',
       'src/ompl/base/objectives/src/MinimaxObjective.cpp', 'src/ompl/geometric/src/PathGeometric.cpp']


def queries(tier):
    to = 300 if tier == 'quick' else 1200
    qs = []
    for opt in (0, 1, 2):
        qs.append(Query('ranking[opt=%d]' % opt, 'C04_cost.cpp', 'harness_ranking', tus=TUS, defines={'OPT': opt}, unwind=4, timeout=to,
                        bound='every triple of solutions, objective kind %d' % opt))
    for opt in (1, 2):
        qs.append(Query('objective[opt=%d]' % opt, 'C04_cost.cpp', 'harness_objective', tus=TUS, defines={'OPT': opt}, unwind=4, timeout=to * 2, backends=('cadical', 'kissat'),
                        bound='every non-NaN cost pair and threshold'))
    for ns in ([0, 1, 2, 4] if tier == 'quick' else [0, 1, 2, 3, 4, 5, 6, 8]):
        qs.append(Query('path_cost[n=%d]' % ns, 'C04_cost.cpp', 'harness_path_cost', tus=TUS, defines={'NS': ns}, unwind=ns * ns + 4, timeout=to,
                        uf=('fadd',), bound='path of %d states, symbolic cost/distance tables' % ns,
                        note='fadd abstracted by an uninterpreted function (the claim is equality with the ordered fold)'))
    for ns in ([2, 3] if tier == 'quick' else [2, 3, 4]):
        qs.append(Query('admissible[n=%d]' % ns, 'C04_cost.cpp', 'harness_admissible', tus=TUS, defines={'NS': ns}, unwind=ns * ns * ns + 4, timeout=to,
                        backends=('cadical', 'kissat'), bound='path of %d states, every integer-valued metric with entries in [0,15]' % ns))
    return qs
