"""C14 Dubins: word-selection logic (DESIGN §4 C14)."""
from vt.pipeline import Query

CLAIM = ('Selection logic of the real Dubins distance code (global dubins(d,alpha,beta) -> dubinsExhaustive) with the six word solvers and the '
         'long-path test cut at IR level to environment stubs that offer an ARBITRARY candidate per word (any subset solvable, symbolic '
         'integer segment lengths): each word is evaluated once, the returned word is one of the offered candidates and its length is the '
         'minimum over the offered ones - i.e. "the Dubins distance equals the shortest of the six canonical words" as far as selection goes.')
OUT = ('that the words are real curves reaching the target, the 16-class classification table of the long-path branch, interpolation along the '
       'curve, symmetric variant, everything about Reeds-Shepp, RS <= Dubins, prefix optimality: all rest on sin/cos/atan2/acos identities')
ASSUMPTIONS = ['the six word solvers and isLongPath are environment stubs (calls redirected in the IR of DubinsStateSpace.cpp, compiled with -fno-inline so that every solver is a call)',
               'fmod is a contract stub']
D = 'declare void @%s(%%"class.ompl::base::DubinsStateSpace::DubinsPath"*, double, double, double)'
REDIR = {'_ZN12_GLOBAL__N_19dubins%sEddd' % w: ('vt_word_' + w, D % ('vt_word_' + w)) for w in ('LSL', 'RSR', 'RSL', 'LSR', 'RLR', 'LRL')}
REDIR['_ZN12_GLOBAL__N_110isLongPathEddd'] = ('vt_is_long_path', 'declare zeroext i1 @vt_is_long_path(double, double, double)')


def queries(tier):
    to = 300 if tier == 'quick' else 1200
    qs = [Query('word_selection[exhaustive]', 'C14_dubins.cpp', 'harness_word_selection', tus=['src/ompl/base/spaces/src/DubinsStateSpace.cpp'],
                  defines={'LONGPATH': 0}, cxxflags=('-fno-inline',), tu_redirect=REDIR, stubs=('fmod.c',), renames={'fmod': 'vt_fmod'}, unwind=24, timeout=to,
                  checks='none', bound='every subset of solvable words, every segment length in [0,15], d in [1e-3,100], alpha,beta in [0,6]')]
    qs.append(Query('word_selection[long-path branch]', 'C14_dubins.cpp', 'harness_word_selection', tus=['src/ompl/base/spaces/src/DubinsStateSpace.cpp'],
                    defines={'LONGPATH': 1}, cxxflags=('-fno-inline',), tu_redirect=REDIR, stubs=('fmod.c',), renames={'fmod': 'vt_fmod'}, unwind=24, timeout=to,
                    checks='none', bound='classification branch: the result is an offered candidate (which class is chosen is NOT checked)'))
    return qs
