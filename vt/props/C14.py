"""C14 Dubins: word-selection logic (DESIGN §4 C14)."""
from vt.pipeline import Query

CLAIM = ('Curve integration: real ReedsSheppStateSpace::interpolate(from,path,t,state) and DubinsStateSpace::interpolate(from,path,t,state,radius) for every word of the real word tables '
         'and arbitrary (dyadic) segment lengths: exactly t*length of arc is consumed segment by segment in word order (backwards for reversed Dubins words), the heading is the start heading '
         'plus the signed turns, the temporary state is freed - no segment of a word is skipped and prefixes are prefixes. '
         'Selection logic of the real Dubins distance code (global dubins(d,alpha,beta) -> dubinsExhaustive) with the six word solvers and the '
         'long-path test cut at IR level to environment stubs that offer an ARBITRARY candidate per word (any subset solvable, symbolic '
         'integer segment lengths): each word is evaluated once, the returned word is one of the offered candidates and its length is the '
         'minimum over the offered ones - i.e. "the Dubins distance equals the shortest of the six canonical words" as far as selection goes. '
         'Long-path (classification) branch, with the 15 switching functions additionally cut to arbitrary values: for every class (alpha, beta '
         'quadrants by real comparisons) and every sign pattern of the switching functions the branch evaluates one or two CSC words (never a '
         'CCC word, none twice), returns an offered candidate, and in the two-candidate classes the shorter of the two.')
OUT = ('that the words are real curves reaching the target, WHICH word each class of the long-path table selects (optimality of the classification), interpolation along the '
       'curve, symmetric variant, everything about Reeds-Shepp, RS <= Dubins, prefix optimality: all rest on sin/cos/atan2/acos identities')
ASSUMPTIONS = ['the six word solvers, isLongPath and (long-path query) the 15 switching functions s_xx are environment stubs (calls redirected in the IR of DubinsStateSpace.cpp, compiled with -fno-inline so that every solver is a call)',
               'fmod is a contract stub']
D = 'declare void @%s(%%"class.ompl::base::DubinsStateSpace::DubinsPath"*, double, double, double)'
REDIR = {'_ZN12_GLOBAL__N_19dubins%sEddd' % w: ('vt_word_' + w, D % ('vt_word_' + w)) for w in ('LSL', 'RSR', 'RSL', 'LSR', 'RLR', 'LRL')}
SW = ('12', '13', '14_1', '21', '22_1', '22_2', '24', '31', '33_1', '33_2', '34', '41_1', '41_2', '42', '43')
REDIR_LONG = dict(REDIR)
for n in SW:
    REDIR_LONG['_ZN12_GLOBAL__N_1%ds_%sEddd' % (len(n) + 2, n)] = ('vt_sw_' + n, 'declare double @vt_sw_%s(double, double, double)' % n)
REDIR['_ZN12_GLOBAL__N_110isLongPathEddd'] = REDIR_LONG['_ZN12_GLOBAL__N_110isLongPathEddd'] = ('vt_is_long_path', 'declare zeroext i1 @vt_is_long_path(double, double, double)')


def queries(tier):
    to = 300 if tier == 'quick' else 1200
    qs = [Query('word_selection[exhaustive]', 'C14_dubins.cpp', 'harness_word_selection', tus=['src/ompl/base/spaces/src/DubinsStateSpace.cpp'],
                  defines={'LONGPATH': 0}, cxxflags=('-fno-inline',), tu_redirect=REDIR, stubs=('fmod.c',), renames={'fmod': 'vt_fmod'}, unwind=24, timeout=to,
                  checks='none', bound='every subset of solvable words, every segment length in [0,15], d in [1e-3,100], alpha,beta in [0,6]')]
    qs.append(Query('word_selection[long-path branch]', 'C14_dubins.cpp', 'harness_word_selection', tus=['src/ompl/base/spaces/src/DubinsStateSpace.cpp'],
                    defines={'LONGPATH': 1}, cxxflags=('-fno-inline',), tu_redirect=REDIR_LONG, stubs=('fmod.c',), renames={'fmod': 'vt_fmod'}, unwind=24, timeout=to,
                    checks='none', bound='classification branch: every class and switching-function outcome; which word a class selects is NOT checked against optimality'))
    for rs, nm, tu, nw in ((1, 'reedsshepp', 'src/ompl/base/spaces/src/ReedsSheppStateSpace.cpp', 18), (0, 'dubins', 'src/ompl/base/spaces/src/DubinsStateSpace.cpp', 6)):
        # proofs take 300-600 s per word (refutations ~3 min): the quick tier keeps one five-segment Reeds-Shepp word and may report it
        # UNDECIDED within its budget (then it is dropped from the claim of that run); all words are thorough-tier
        words = range(nw) if tier == 'thorough' else ([16] if rs else [])
        for w in words:
            qs.append(Query('segment_walk[%s,word=%d]' % (nm, w), 'C14_interp.cpp', 'harness_segment_walk', tus=[tu], defines={'RS': rs, 'WORD': w}, stubs=('trig.c',), renames={'sin': 'vt_sin', 'cos': 'vt_cos'},
                            unwind=8, timeout=(420 if tier == 'quick' else 1800), checks='none', uf=('fadd', 'fsub', 'fmul'), note='fadd/fsub/fmul abstracted by uninterpreted functions (equality with the reference walk; a failing abstract query falls back to exact arithmetic); sin/cos are uninterpreted (contract stub trig.c): positions are not asserted, only the arc bookkeeping and the heading',
                            bound='word %d of the real %s word table (case split), every segment length k/4 in [%s2,2], t in {1/8..1}, start heading k/4 in [-2,2]%s' % (w, nm, '-' if rs else '0..', '' if rs else ', both directions (reverse flag)')))
    return qs
