"""C11 BinaryHeap: inductive steps from an arbitrary valid heap (DESIGN §4 C11)."""
from vt.pipeline import Query

CLAIM = ('Every BinaryHeap operation (insert, bulk insert, remove(handle), pop, update(handle), rebuild, buildFrom, sort, clear, '
         'top, size, getContent) run from an ARBITRARY valid heap of N elements (heap order + position==index assumed, keys fully '
         'symbolic 32-bit ints, or (prio,id) records compared on prio only so that ties exist) re-establishes the invariant, '
         'changes the key multiset exactly as specified (symbolic probe value), keeps every surviving handle attached to its own '
         'element, fires the GridB event callbacks once, and is memory safe (no out-of-bounds, no double free). One step from an '
         'arbitrary valid state covers call histories of any length for heaps up to the stated size.')
OUT = 'heap sizes above the bound; comparators that are not strict weak orders; allocation failure'
ASSUMPTIONS = ['real libstdc++ std::vector code is part of the encoded IR (not a model)']


def queries(tier):
    nmax = 6 if tier == 'quick' else 10
    insts = [0] if tier == 'quick' else [0, 1, 2]
    qs = []
    def add(entry, n, k=None, inst=0, m=2, timeout=None):
        d = {'N': n, 'INST': inst, 'M': m}
        if k is not None: d['K'] = k
        nm = '%s[n=%d%s,inst=%d]' % (entry, n, '' if k is None else ',k=%d' % k, inst)
        qs.append(Query(nm, 'C11_heap.cpp', 'harness_' + entry, defines=d, unwind=n + m + 3,
                        timeout=timeout or (150 if tier == 'quick' else 900),
                        bound='heap size N=%d%s, all 2^32 key values, instantiation %d' % (n, '' if k is None else ', element index K=%d' % k, inst)))
    for inst in insts + ([2] if tier == 'quick' else []):
        ns = range(1, nmax + 1) if inst == 0 else ([3, nmax] if tier == 'quick' else [2, 5, 7])
        for n in ns:
            add('insert', n, inst=inst)
            add('pop', n, inst=inst)
            for k in range(n):
                add('remove', n, k, inst=inst)
                add('update', n, k, inst=inst)
    for inst in insts:
        for n in ([2, 5] if tier == 'quick' else [1, 2, 3, 5, 7, 8]):
            add('rebuild', n, inst=inst)
            add('buildfrom', n, inst=inst)
        for n in ([3] if tier == 'quick' else [2, 4, 6]):
            add('sort', n, inst=inst)
            add('drain', n, inst=inst)
            add('insert_vector', n, inst=inst)
            add('clear', n, inst=inst)
    # deeper shapes for remove/update of inner elements (depth >= 2 slots whose parent is not an ancestor of the last slot)
    for n in ([12, 13] if tier == 'quick' else [11, 12, 13, 14, 15, 16]):
        for k in ([3, 4, 5, 6] if tier == 'quick' else range(3, n)):
            add('remove', n, k, inst=0, timeout=600 if tier == 'quick' else 1800)
    return qs
