"""Queries shared by C06/C07/C08/C09: per-space harness files sp_*.cpp."""
from vt.pipeline import Query, VT
import os
RNG_ENV = ('-include', os.path.join(VT, 'include', 'vt_rng_env.h'))
SO2_TU = ['src/ompl/base/spaces/src/SO2StateSpace.cpp']


def so2(entry, tier, **kw):
    kw.setdefault('timeout', 300 if tier == 'quick' else 1200)
    kw.setdefault('unwind', 3)
    return Query('so2_' + entry, 'sp_so2.cpp', 'harness_so2_' + entry, tus=SO2_TU, stubs=('fmod.c',), renames={'fmod': 'vt_fmod'},
                 cxxflags=RNG_ENV, **kw)

RV_TU = ['src/ompl/base/spaces/src/RealVectorStateSpace.cpp']


def rv(entry, tier, dim=1, **kw):
    kw.setdefault('timeout', 300 if tier == 'quick' else 1200)
    kw.setdefault('unwind', dim + 3)
    d = dict(kw.pop('defines', {})); d['DIM'] = dim
    q = Query('rv_%s[dim=%d]' % (entry, dim), 'sp_rv.cpp', 'harness_rv_' + entry, tus=RV_TU, cxxflags=RNG_ENV, defines=d, **kw)
    return q

MISC_TU = ['src/ompl/base/spaces/src/TimeStateSpace.cpp', 'src/ompl/base/spaces/src/DiscreteStateSpace.cpp']


def misc(entry, tier, **kw):
    kw.setdefault('timeout', 300 if tier == 'quick' else 1200)
    kw.setdefault('unwind', 3)
    nm = kw.pop('name', entry)
    return Query(nm, 'sp_misc.cpp', 'harness_' + entry, tus=MISC_TU, cxxflags=RNG_ENV, **kw)

COMP_TU = ['src/ompl/base/src/StateSpace.cpp', 'src/ompl/base/src/StateSampler.cpp']


def compound(entry, tier, **kw):
    kw.setdefault('timeout', 300 if tier == 'quick' else 1200)
    kw.setdefault('unwind', 8)
    nm = kw.pop('name', 'compound_' + entry)
    kw.setdefault('uf', ('fmul', 'fadd'))
    kw.setdefault('note', 'fmul/fadd abstracted by uninterpreted functions (the claims are equalities with the reference expression)')
    return Query(nm, 'sp_compound.cpp', 'harness_compound_' + entry, tus=COMP_TU, **kw)

MOB_TU = ['src/ompl/base/spaces/special/src/MobiusStateSpace.cpp', 'src/ompl/base/src/StateSpace.cpp',
          'src/ompl/base/spaces/src/SO2StateSpace.cpp', 'src/ompl/base/spaces/src/RealVectorStateSpace.cpp']


def mobius(entry, tier, **kw):
    kw.setdefault('timeout', 300 if tier == 'quick' else 1200)
    kw.setdefault('unwind', 5)
    return Query('mobius_' + entry, 'sp_mobius.cpp', 'harness_mobius_' + entry, tus=MOB_TU, cxxflags=RNG_ENV, **kw)

SO3_TU = ['src/ompl/base/spaces/src/SO3StateSpace.cpp']


def so3(entry, tier, **kw):
    kw.setdefault('timeout', 300 if tier == 'quick' else 1200)
    kw.setdefault('unwind', 4)
    return Query('so3_' + entry, 'sp_so3.cpp', 'harness_so3_' + entry, tus=SO3_TU, cxxflags=RNG_ENV, stubs=('trig.c',),
                 renames={'acos': 'vt_acos', 'sin': 'vt_sin', 'cos': 'vt_cos'}, **kw)
