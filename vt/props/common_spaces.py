"""Queries shared by C06/C07/C08/C09: per-space harness files sp_*.cpp."""
from vt.pipeline import Query, VT
import os
RNG_ENV = ('-include', os.path.join(VT, 'include', 'vt_rng_env.h'))
SO2_TU = ['src/ompl/base/spaces/src/SO2StateSpace.cpp']


def so2(entry, tier, **kw):
    kw.setdefault('timeout', 300 if tier == 'quick' else 1200)
    kw.setdefault('unwind', 3)
    return Query('so2_' + entry, 'sp_so2.cpp', 'harness_so2_' + entry, tus=SO2_TU, stubs=('fmod.c',), renames={'fmod': 'vt_fmod'},
                 cxxflags=RNG_ENV, **kw)
