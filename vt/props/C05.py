"""C05 motion validity (DESIGN §4 C05)."""
from vt.pipeline import Query

CLAIM = ('DiscreteMotionValidator::checkMotion (fast bisection form and lastValid form, real code incl. MotionValidator counters) '
         'run against a stub space reporting nd segments and a symbolic validity bit per subdivision point: both forms return '
         'valid exactly when points 1..nd are all valid and agree with each other; interpolation is requested only at t==j/nd; on '
         'success each point is checked exactly once (fast form) and lastValid is untouched; on failure the fraction is (j*-1)/nd '
         'in [0,1) for the first invalid j*, the returned state is the interpolation at that fraction; exactly one counter advances; '
         'temporaries are freed. SpaceInformation::checkMotion(states,count) (both forms) equals the conjunction over the list and '
         'reports the first invalid index; getMotionStates returns exactly the requested interpolation points; '
         'StateSpace/CompoundStateSpace::validSegmentCount formulae; Dubins/Reeds-Shepp validators (path interpolation stubbed).')
OUT = ('segment counts above the bound; the arithmetic of real interpolate() implementations (C07/C14); Dubins3D/Vana/Owen validators')
ASSUMPTIONS = ['std::queue is replaced by a bounded ring-buffer model (vt/stdmodel/queue): the claim is about OMPL code against a correct queue',
               'precondition of checkMotion (documented in the code): the start state is valid; for nd==0 (identical states) the end state is therefore valid too']


def queries(tier):
    qs = []
    nds = [0, 1, 2, 3, 4, 5, 7, 8, 12, 16] if tier == 'quick' else list(range(0, 25)) + [28, 31, 32, 33, 40]
    for nd in nds:
        qs.append(Query('dmv[nd=%d]' % nd, 'C05_dmv.cpp', 'harness_dmv', tus=['src/ompl/base/src/DiscreteMotionValidator.cpp'],
                        defines={'ND': nd, 'VT_QUEUE_CAP': 48}, unwind=max(nd, 1) + 3, stdmodel=True,
                        timeout=300 if tier == 'quick' else 900, mem_gb=16,
                        bound='segment count nd=%d, all 2^nd validity predicates' % nd))
    for rs, nm, tu in ((0, 'dubins', 'src/ompl/base/spaces/src/DubinsStateSpace.cpp'), (1, 'reedsshepp', 'src/ompl/base/spaces/src/ReedsSheppStateSpace.cpp')):
        for nd in ([0, 1, 2, 3, 5, 8] if tier == 'quick' else list(range(0, 17)) + [24, 32]):
            qs.append(Query('%s_validator[nd=%d]' % (nm, nd), 'C05_dubins.cpp', 'harness_curve_validator', tus=[tu],
                            defines={'ND': nd, 'RS': rs, 'VT_QUEUE_CAP': 48}, unwind=max(nd, 6) + 3, stdmodel=True,
                            timeout=300 if tier == 'quick' else 900, mem_gb=16,
                            bound='%s validator, segment count nd=%d, all validity predicates' % (nm, nd)))
    cnts = [0, 1, 2, 3, 4, 5, 8] if tier == 'quick' else list(range(0, 17)) + [24]
    for c in cnts:
        qs.append(Query('list[count=%d]' % c, 'C05_list.cpp', 'harness_list', tus=['src/ompl/base/src/SpaceInformation.cpp'],
                        defines={'CNT': c, 'VT_QUEUE_CAP': 48}, unwind=c + 5, stdmodel=True, timeout=300 if tier == 'quick' else 900,
                        bound='list of %d states (+2 beyond count), all validity predicates' % c))
    for c in ([0, 1, 2, 4] if tier == 'quick' else range(0, 9)):
        for ep in (0, 1):
            qs.append(Query('motion_states_alloc[count=%d,endpoints=%d]' % (c, ep), 'C05_list.cpp', 'harness_motion_states_alloc',
                            tus=['src/ompl/base/src/SpaceInformation.cpp'], defines={'CNT': c, 'ENDPOINTS': ep}, unwind=c + 10, stdmodel=True,
                            timeout=300 if tier == 'quick' else 900, bound='count=%d, endpoints=%d, alloc=true' % (c, ep)))
        for sz in sorted(set([1, c, c + 1, c + 3])):
            if sz < 1: continue
            qs.append(Query('motion_states_noalloc[count=%d,size=%d]' % (c, sz), 'C05_list.cpp', 'harness_motion_states_noalloc',
                            tus=['src/ompl/base/src/SpaceInformation.cpp'], defines={'CNT': c, 'SZ': sz}, unwind=max(c, sz) + 6, stdmodel=True,
                            timeout=300 if tier == 'quick' else 900, bound='count=%d into %d pre-allocated states, endpoints symbolic' % (c, sz)))
    return qs
