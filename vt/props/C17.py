"""C17 path post-processing: densification kernels (DESIGN §4 C17)."""
from vt.pipeline import Query

CLAIM = ('Real PathGeometric::interpolate(count), ::interpolate() and ::subdivide() on a path of n stub states with EVERY assignment of integer '
         'segment lengths in [0,7] (zero-length segments included) and every request count in [0,n+5]: the result has exactly the requested '
         'number of states (count >= n >= 2), the original vertices are kept in order with the first and last unchanged, every added state lies '
         'on the segment between its neighbouring originals and in order; interpolate() adds validSegmentCount-1 states per segment; subdivide '
         'yields 2n-1 states with the originals at the even positions.')
OUT = ('PathSimplifier (reduceVertices, shortcutting, B-spline, perturbation, findBetterGoal, simplify drivers: long randomised float-heavy loops) '
       'and PathHybridization (boost graph) - not encoded in this revision; "length unchanged" under real interpolation; paths longer than the bound')
ASSUMPTIONS = ['SpaceInformation::getMotionStates is an environment stub (its real code is checked under C05)',
               'the last segment has positive length (the real code divides by the remaining length)']
TUS = ['src/ompl/geometric/src/PathGeometric.cpp', 'src/ompl/base/src/SpaceInformation.cpp']


def queries(tier):
    qs = []
    to = 300 if tier == 'quick' else 1200
    for ns in ([0, 1, 2, 3, 4] if tier == 'quick' else [0, 1, 2, 3, 4, 5, 6]):
        if ns <= 2:
            qs.append(Query('interpolate_count[n=%d]' % ns, 'C17_path.cpp', 'harness_interpolate_count', tus=TUS, defines={'NS': ns, 'VT_VEC_CAP': 16}, stdmodel=('vec',),
                            unwind=16, timeout=to, checks='none', backends=('cadical', 'kissat'), bound='path of %d states, all segment lengths in [0,7], request in [0,%d]' % (ns, ns + 5)))
        else:
            pats = {3: [0x50, 0x15, 0x11, 0x91, 0x19], 4: [0xa1a, 0x111, 0x505, 0x1a1]}.get(ns, [int('1' * (ns - 1), 16)])
            if tier == 'thorough': pats = pats + [0x10 * (ns > 3) + 0x71, 0x17, 0x22, 0x30 + 0x100 * (ns > 3)]
            for pat in pats:
                for req in ([ns, ns + 1, ns + 3] if tier == 'quick' else range(ns - 1, ns + 6)):
                    qs.append(Query('interpolate_count[n=%d,lengths=%x,request=%d]' % (ns, pat, req), 'C17_path.cpp', 'harness_interpolate_count', tus=TUS,
                                    defines={'NS': ns, 'VT_VEC_CAP': 16, 'LENPAT': pat, 'REQ': req}, stdmodel=('vec',), unwind=16, timeout=to, checks='none',
                                    bound='path of %d states, segment lengths %x (hex digits), request %d (case split)' % (ns, pat, req)))
        if ns <= 2:
            qs.append(Query('interpolate_auto[n=%d]' % ns, 'C17_path.cpp', 'harness_interpolate_auto', tus=TUS, defines={'NS': ns, 'VT_VEC_CAP': 20}, stdmodel=('vec',),
                            unwind=22, timeout=to, checks='none', bound='path of %d states, valid segment counts in [1,3]' % ns))
        elif ns <= 4:
            for pat in (0x00, 0x15, 0x2a, 0x19, 0x06):
                qs.append(Query('interpolate_auto[n=%d,counts=%x]' % (ns, pat), 'C17_path.cpp', 'harness_interpolate_auto', tus=TUS, defines={'NS': ns, 'VT_VEC_CAP': 20, 'VSCPAT': pat},
                                stdmodel=('vec',), unwind=22, timeout=to, checks='none', bound='path of %d states, valid segment counts pattern %x (case split)' % (ns, pat)))
        qs.append(Query('subdivide[n=%d]' % ns, 'C17_path.cpp', 'harness_subdivide', tus=TUS, defines={'NS': ns, 'VT_VEC_CAP': 16}, stdmodel=('vec',),
                        unwind=16, timeout=to, checks='none', bound='path of %d states' % ns))
    return qs
