"""C10 nearest-neighbour structures (DESIGN §4 C10)."""
from vt.pipeline import Query
from vt.props.common_spaces import RNG_ENV

CLAIM = ('NearestNeighborsLinear<int> and NearestNeighborsSqrtApprox<int> (real code incl. std::function distance and std::sort/partial_sort) '
         'run from ARBITRARY contents of N elements (symbolic ids with duplicates) under EVERY non-negative integer-valued distance table: '
         'add / add(vector) / remove / clear / list keep exactly the right multiset (remove takes out one copy), nearest returns a member at '
         'the minimum distance; SqrtApprox: nearest returns a member and keeps its scan offset in range. (nearestK/nearestR harnesses exist but '
         'are thorough-tier attempts: std::sort over a symbolic-length range was undecided.)')
OUT = ('nearestK/nearestR of the linear structures (undecided), both GNAT variants (tree construction with GreedyKCenters/Eigen, pruning by range tables, removal cache, rebuilds) - not encoded in this '
       'revision; N above the bound; non-integer distances')
ASSUMPTIONS = ['std::vector is the bounded inline-storage model (vt/stdmodel/vec/vector)', 'distance values are integers in [0,7] as doubles']


def queries(tier):
    qs = []
    to = 300 if tier == 'quick' else 1200
    for sq in (0, 1):
        for n in ([0, 1, 3] if tier == 'quick' else [0, 1, 2, 3, 4, 5]):
            for e in ('add_remove', 'nearest', 'nearest_k', 'nearest_r'):
                if e in ('nearest_k', 'nearest_r') and (tier == 'quick' or (sq and n != 3)): continue   # std::sort over a symbolic-length range: undecided in 450 s even for n=1
                qs.append(Query('%s_%s[n=%d]' % ('sqrtapprox' if sq else 'linear', e, n), 'C10_linear.cpp', 'harness_' + e,
                                defines={'N': n, 'U': 4, 'SQRT': sq, 'VT_VEC_CAP': n + 4}, stdmodel=('vec',), unwind=(n + 6) if e in ('nearest_k', 'nearest_r') else max(n, 4) * 4 + 8, timeout=to, checks='none',
                                bound='N=%d stored elements over 4 ids, every distance table with entries in [0,7]' % n))
    # GNAT: inductive steps on one tree node (C10_gnat.cpp)
    for sz in ([2, 3] if tier == 'quick' else [2, 3, 4]):
        for e, kn in (('visit_r', 0), ('visit_k', 1), ('visit_k', 2), ('add', 0)):
            if tier == 'quick' and sz == 3 and e == 'visit_k' and kn == 1: continue
            qs.append(Query('gnat_%s[children=%d%s]' % (e, sz, ',k=%d' % kn if kn else ''), 'C10_gnat.cpp', 'harness_' + e, defines={'SZ': sz, 'KNN': kn or 2}, cxxflags=RNG_ENV, new_cap=64, unwind=sz + 5, timeout=to, checks='none',
                            bound='one node with %d children, every metric with integer distances in [0,7] on query, pivots and one subtree element, every conservative range/radius table with entries in [0,15]%s' % (sz, ', k=%d with 0..k earlier neighbours' % kn if kn else '')))
    return qs
