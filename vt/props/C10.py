"""C10 nearest-neighbour structures (DESIGN §4 C10)."""
from vt.pipeline import Query

CLAIM = ('NearestNeighborsLinear<int> and NearestNeighborsSqrtApprox<int> (real code incl. std::function distance and std::sort/partial_sort) '
         'run from ARBITRARY contents of N elements (symbolic ids with duplicates) under EVERY non-negative integer-valued distance table: '
         'add / add(vector) / remove / clear / list keep exactly the right multiset (remove takes out one copy), nearest returns a member at '
         'the minimum distance; SqrtApprox: nearest returns a member and keeps its scan offset in range. (nearestK/nearestR harnesses exist but '
         'are thorough-tier attempts: std::sort over a symbolic-length range was undecided.)')
OUT = ('nearestK/nearestR of the linear structures (undecided), both GNAT variants (tree construction with GreedyKCenters/Eigen, pruning by range tables, removal cache, rebuilds) - not encoded in this '
       'revision; N above the bound; non-integer distances')
ASSUMPTIONS = ['std::vector is the bounded inline-storage model (vt/stdmodel/vec/vector)', 'distance values are integers in [0,7] as doubles']


def queries(tier):
    qs = []
    to = 300 if tier == 'quick' else 1200
    for sq in (0, 1):
        for n in ([0, 1, 3] if tier == 'quick' else [0, 1, 2, 3, 4, 5]):
            for e in ('add_remove', 'nearest', 'nearest_k', 'nearest_r'):
                if e in ('nearest_k', 'nearest_r') and (tier == 'quick' or (sq and n != 3)): continue   # std::sort over a symbolic-length range: undecided in 450 s even for n=1
                qs.append(Query('%s_%s[n=%d]' % ('sqrtapprox' if sq else 'linear', e, n), 'C10_linear.cpp', 'harness_' + e,
                                defines={'N': n, 'U': 4, 'SQRT': sq, 'VT_VEC_CAP': n + 4}, stdmodel=('vec',), unwind=(n + 6) if e in ('nearest_k', 'nearest_r') else max(n, 4) * 4 + 8, timeout=to, checks='none',
                                bound='N=%d stored elements over 4 ids, every distance table with entries in [0,7]' % n))
    return qs
