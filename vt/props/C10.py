"""C10 nearest-neighbour structures (DESIGN §4 C10)."""
from vt.pipeline import Query
from vt.props.common_spaces import RNG_ENV

CLAIM = ('NearestNeighborsLinear<int> and NearestNeighborsSqrtApprox<int> (real code incl. std::function distance and std::sort/partial_sort) '
         'run from ARBITRARY contents of N elements (symbolic ids with duplicates) under EVERY non-negative integer-valued distance table: '
         'add / add(vector) / remove / clear / list keep exactly the right multiset (remove takes out one copy), nearest returns a member at '
         'the minimum distance; SqrtApprox: nearest returns a member and keeps its scan offset in range. (nearestK/nearestR harnesses exist but '
         'are thorough-tier attempts: std::sort over a symbolic-length range was undecided.) '
         'GNAT (thread-safe variant, real Node::nearestR / Node::nearestK / Node::add incl. std::priority_queue and std::function): inductive steps on ONE tree node from an ARBITRARY node state '
         'satisfying the invariant "range and radius tables are conservative", under EVERY metric with integer distances in [0,7]: a visit never loses an element of the answer (a pivot within '
         'the radius / closer than the k-th neighbour is reported, a subtree holding such an element is queued - boundary cases included), reports/queues nothing twice, keeps the '
         'queue a heap; add() re-establishes the invariant for the new element and only widens tables. By induction over visits and insertions this is exactness of nearestR/nearestK on '
         'trees of any shape built by add() without removals.')
OUT = ('nearestK/nearestR of the linear structures (undecided); GNAT: split()/k-centers pivot selection (Eigen), the removal cache, rebuilds and remove(), the outer query loops '
       '(nearestKInternal/nearestRInternal queue draining, postprocessing), the NoThreadSafety variant, nodes with more than 2 children in the quick tier (3 in thorough); N above the bound; non-integer distances')
ASSUMPTIONS = ['std::vector is the bounded inline-storage model (vt/stdmodel/vec/vector)', 'distance values are integers in [0,7] as doubles']


def queries(tier):
    qs = []
    to = 300 if tier == 'quick' else 1200
    for sq in (0, 1):
        for n in ([0, 1, 3] if tier == 'quick' else [0, 1, 2, 3, 4, 5]):
            for e in ('add_remove', 'nearest', 'nearest_k', 'nearest_r'):
                if e in ('nearest_k', 'nearest_r') and (tier == 'quick' or (sq and n != 3)): continue   # std::sort over a symbolic-length range: undecided in 450 s even for n=1
                qs.append(Query('%s_%s[n=%d]' % ('sqrtapprox' if sq else 'linear', e, n), 'C10_linear.cpp', 'harness_' + e,
                                defines={'N': n, 'U': 4, 'SQRT': sq, 'VT_VEC_CAP': n + 4}, stdmodel=('vec',), unwind=(n + 6) if e in ('nearest_k', 'nearest_r') else max(n, 4) * 4 + 8, timeout=to, checks='none',
                                bound='N=%d stored elements over 4 ids, every distance table with entries in [0,7]' % n))
    # GNAT: inductive steps on one tree node (C10_gnat.cpp); rotation offset, the subtree of the witness element and the
    # number of neighbours already known are case-split
    for sz in ([2] if tier == 'quick' else [2, 3]):
        for e, kn in (('visit_r', 0), ('visit_k', 1), ('visit_k', 2), ('add', 0)):
            for off in range(sz):
                for js in range(sz):
                    if e == 'add' and (off or js or tier == 'quick'): continue     # (add: the unsliced witness twin needs > 40 GB: thorough tier)
                    for have in (range(kn + 1) if e == 'visit_k' else [0]):
                        if tier == 'quick' and e == 'visit_k' and kn == 2 and have == 1 and off != js: continue
                        d = {'SZ': sz, 'KNN': kn or 2, 'OFFSET': off, 'JSUB': js}
                        if e == 'visit_k': d['HAVE'] = have
                        qs.append(Query('gnat_%s[children=%d%s,offset=%d,subtree=%d%s]' % (e, sz, ',k=%d' % kn if kn else '', off, js, ',have=%d' % have if e == 'visit_k' else ''),
                                        'C10_gnat.cpp', 'harness_' + e, defines=d, cxxflags=RNG_ENV, new_cap=64, unwind=sz + 3, timeout=(2 * to if e == 'add' else to), mem_gb=(40 if e == 'add' else 20), checks='none',
                                        bound='one node with %d children (child order offset %d, witness element in subtree %d), every metric with integer distances in [0,7] on query, pivots and one subtree element, every conservative range/radius table with entries in [0,15]%s' % (sz, off, js, ', k=%d with %d earlier neighbours' % (kn, have) if kn else '')))
    return qs
