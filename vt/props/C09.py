"""C09 copies and state-level persistence (DESIGN §4 C09)."""
from vt.props import common_spaces as cs
CLAIM = ('Start/goal marks of a planner-data graph: real PlannerData::markStartState/markGoalState/isStartVertex/isGoalVertex/numStart/GoalVertices/getStart/GoalIndex '
         '(real std::map lookup, std::vector, std::sort, std::binary_search) for case-split mark sequences over 3 vertices with ARBITRARY distinct vertex indices: a vertex is reported as '
         'start/goal exactly when it was marked so, duplicates are not stored twice, non-vertices are refused. The comparator behind getCommonSubspaces/partial copies is a strict weak order whose equivalence classes are single (dimension, name) pairs. '
         'copyState / serialize+deserialize round trips of the real SO(2), R^n, Time, Discrete code reproduce every state bit for bit and write only their own serialization length')
OUT = 'StateStorage, PlannerDataStorage, the boost graph of PlannerData (vertices/edges/weights) (boost::serialization over iostreams is outside the encodable fragment): marker/signature/truncation rejection is NOT checked; compound/wrapper delegation (thorough)'
ASSUMPTIONS = []
from vt.pipeline import Query


def queries(tier):
    to = 300 if tier == 'quick' else 1200
    # std::sort's introsort loop (ranges > 16 elements) is never entered for <= 8 marks: unwound once, checked by the unwinding assertions
    F = '_ZSt16__introsort_loopIN9__gnu_cxx17__normal_iteratorIPjSt6vectorIjSaIjEEEElNS0_5__ops15_Iter_less_iterEEvT_S9_T0_T1_'
    us = ['%s.%d:1' % (F, i) for i in range(6)]
    # digits (least significant first): state | 4*goal ; states 0..2 are vertices, 3 is not
    # one mark: decided in seconds.  Two and three marks: on the REPAIRED tree markGoalState sorts the goal list itself and the symbolic execution of
    # std::sort over it (introsort recursion, data-dependent sizes) does not finish within 10 minutes even with the index order case-split - these are
    # thorough-tier attempts (on the unrepaired tree, where the sort ran on the other, empty list, they were decided in ~2 min and found the defect)
    seqs = [(1, 0x4, None), (1, 0x7, None)]
    for order in (() if tier == 'quick' else (0x752, 0x725, 0x572, 0x527, 0x275, 0x257)):
        for k, sq in ((2, 0x54), (2, 0x46), (2, 0x44), (3, 0x654), (3, 0x456), (3, 0x416), (3, 0x474)):
            if tier == 'quick' and k == 3 and order not in (0x752, 0x257, 0x527): continue
            seqs.append((k, sq, order))
    if tier == 'thorough': seqs += [(2, 0x54, None), (2, 0x46, None), (3, 0x654, None), (3, 0x210, None)]
    F1 = ['%s:1' % F]
    pd = [Query('plannerdata_marks[seq=%x%s]' % (sq, ',order=%x' % o if o else ''), 'C09_pdata.cpp', 'harness_marks', tus=['src/ompl/base/src/PlannerData.cpp'],
                defines=dict({'NOPS': k, 'SEQ': sq}, **({'IDXORD': o} if o else {})), unwind=9, unwindset=us + F1, timeout=to, checks='none', extra_cbmc=('-DVT_BOUNDED_MEMMOVE',),
                bound='mark sequence %x (hex digit k: state | 4*goal, state 3 is not a vertex) on 3 vertices with %s' % (sq, ('indices %x (hex digits, case split over the order)' % o) if o else 'ARBITRARY distinct indices in [0,7]'))
          for k, sq, o in seqs]
    pd.append(Query('plannerdata_marks[ops=1]', 'C09_pdata.cpp', 'harness_marks', tus=['src/ompl/base/src/PlannerData.cpp'], defines={'NOPS': 1}, unwind=5, unwindset=us, timeout=to, checks='none',
                    bound='one mark call, symbolic state and kind'))
    pd.append(Query('common_subspace_order', 'C09_common.cpp', 'harness_common_subspace_order', unwind=6, timeout=to,
                    bound='three subspace locations, dimensions in [0,3], one-letter names over 4 letters'))
    return pd + [cs.so2('roundtrip', tier, bound='every 64-bit pattern'), cs.rv('roundtrip', tier, 1, bound='dim 1, every bit pattern', unwind=12),
            cs.rv('roundtrip', tier, 3, bound='dim 3, every bit pattern', unwind=30), cs.misc('misc_roundtrip', tier, bound='every bit pattern'),
            cs.compound('copy_serialize', tier, bound='3 stub components of serialization lengths 1,2,3')]
