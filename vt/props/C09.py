"""C09 copies and state-level persistence (DESIGN §4 C09)."""
from vt.props import common_spaces as cs
CLAIM = 'copyState / serialize+deserialize round trips of the real SO(2), R^n, Time, Discrete code reproduce every state bit for bit and write only their own serialization length'
OUT = 'StateStorage, PlannerDataStorage, PlannerData graphs (boost::serialization over iostreams is outside the encodable fragment): marker/signature/truncation rejection is NOT checked; compound/wrapper delegation (thorough)'
ASSUMPTIONS = []
def queries(tier):
    return [cs.so2('roundtrip', tier, bound='every 64-bit pattern'), cs.rv('roundtrip', tier, 1, bound='dim 1, every bit pattern', unwind=12),
            cs.rv('roundtrip', tier, 3, bound='dim 3, every bit pattern', unwind=30), cs.misc('misc_roundtrip', tier, bound='every bit pattern'),
            cs.compound('copy_serialize', tier, bound='3 stub components of serialization lengths 1,2,3')]
