"""C09 copies and state-level persistence (DESIGN §4 C09)."""
from vt.props import common_spaces as cs
CLAIM = 'copyState / serialize+deserialize round trips of the real state-space code reproduce every state bit for bit'
OUT = 'StateStorage, PlannerDataStorage, PlannerData graphs (boost::serialization over iostreams is outside the encodable fragment): marker/signature/truncation rejection is NOT checked'
ASSUMPTIONS = []
def queries(tier):
    return [cs.so2('roundtrip', tier, bound='every 64-bit pattern')]
