"""C20 seeding (DESIGN §4 C20)."""
from vt.pipeline import Query

CLAIM = ('Seed plumbing of the real RandomNumbers.cpp with the random ENGINES as an environment model (engine state = the value it was seeded '
         'with): for every 32-bit global seed and every clock reading, after setSeed() before any draw the seed engine is seeded with exactly '
         'the global seed (1 for seed 0), never with the clock, firstSeed() reports it, handed-out seeds lie in [1,1e9] (real '
         'uniform_int_distribution code); RNG::setLocalSeed stores the seed, reseeds the engine with exactly it and leaves no cached normal '
         'variate of the old stream (arbitrary prior distribution state).')
OUT = ('the arithmetic of ranlux24/mt19937 themselves (a 2-copy query over the real engines produced 14 M variables and was undecided), the '
       'spherical-data reset, every sampler and planner built on top (whole-planner determinism across processes), unordered-container '
       'iteration order, address dependence')
ASSUMPTIONS = ['std::chrono clock is an arbitrary value per reading', 'logging is a no-op', 'CBMC built-in pthread mutex model (single thread)',
               'engine seed()/operator() are explicit specialisations in the harness (environment model)']


def queries(tier):
    to = 600 if tier == 'quick' else 1800
    extra = [Query('seed_range', 'C20_seed.cpp', 'harness_seed_range', unwind=12, timeout=1800, checks='none', mem_gb=20, bound='every 32-bit seed; distribution loops unwound to 12')] if tier == 'thorough' else []
    return extra + [Query('global_seed', 'C20_seed.cpp', 'harness_global_seed', unwind=12, timeout=to, checks='none', mem_gb=20,
                  bound='every 32-bit seed, every clock reading, with/without an earlier draw; distribution loops unwound to 12'),
            Query('local_seed', 'C20_seed.cpp', 'harness_local_seed', unwind=12, timeout=to, checks='none', mem_gb=20,
                  bound='every 32-bit local seed, arbitrary cached-variate state')]
