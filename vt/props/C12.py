"""C12 PDF (DESIGN §4 C12)."""
from vt.pipeline import Query

CLAIM = ('PDF<int>::add/update/remove/sample/getWeight/clear/size/operator[] run from an ARBITRARY valid PDF of N elements (sum-tree '
         'invariant assumed by construction, weights symbolic integers k in [0,7] incl. zeros, also scaled as k*2^-70 and k*2^60, data symbolic): the '
         'sum-tree invariant is re-established exactly, size/weights/handles reflect exactly the surviving elements (remove moves '
         'the last element into the hole), sample(r) for every double r in [0,1] returns the element whose cumulative interval '
         'contains r*total (first element when r*total==0), never a zero-weight element for 0<r<1, and no access leaves the storage '
         '(CBMC bounds/pointer checks on the real std::vector code).')
OUT = 'underflow of r*total to 0 for r>0 (weights ~1e-21 with r~1e-304), non-integer weights (rounding drift of the incremental sums), weights outside k*2^e, k<=7, e in {0,-70,60}, N above the bound, the exception paths for negative weights / r outside [0,1]'
ASSUMPTIONS = ['integer-valued weights make every partial sum exact, so the invariant is stated with ==']


def queries(tier):
    qs = []
    nmax = 7 if tier == 'quick' else 17
    to = 200 if tier == 'quick' else 900
    for n in range(1, nmax + 1):
        qs.append(Query('add[n=%d]' % n, 'C12_pdf.cpp', 'harness_add', defines={'N': n}, unwind=n + 6, timeout=to, bound='N=%d' % n))
        if n <= (6 if tier == 'quick' else 10):
            qs.append(Query('sample[n=%d]' % n, 'C12_pdf.cpp', 'harness_sample', defines={'N': n}, unwind=n + 6, timeout=max(to, 400),
                            bound='N=%d, every double r in [0,1]' % n))
        ks = range(n) if (tier == 'quick' or n <= 9) else sorted(set([0, 1, n // 2, n - 3, n - 2, n - 1]))
        for k in ks:
            qs.append(Query('remove[n=%d,k=%d]' % (n, k), 'C12_pdf.cpp', 'harness_remove', defines={'N': n, 'K': k}, unwind=n + 6, timeout=to, bound='N=%d, K=%d' % (n, k)))
            qs.append(Query('update[n=%d,k=%d]' % (n, k), 'C12_pdf.cpp', 'harness_update', defines={'N': n, 'K': k}, unwind=n + 6, timeout=to, bound='N=%d, K=%d' % (n, k)))
    for n in ([0, 3] if tier == 'quick' else [0, 1, 4, 8]):
        qs.append(Query('clear[n=%d]' % n, 'C12_pdf.cpp', 'harness_clear', defines={'N': n}, unwind=n + 6, timeout=to, bound='N=%d' % n))
    # tiny and huge weight scales (k * 2^-70, k * 2^60): absolute-epsilon shortcuts and overflow-ish paths
    for scale, tag in (('0x1p-70', 'tiny'), ('0x1p+60', 'huge')):
        for n in ([2, 3, 5] if tier == 'quick' else [1, 2, 3, 4, 5, 6, 7, 8, 9]):
            d = {'N': n, 'WSCALE': scale}
            qs.append(Query('add[n=%d,%s]' % (n, tag), 'C12_pdf.cpp', 'harness_add', defines=d, unwind=n + 6, timeout=to, bound='N=%d, weights k*%s' % (n, scale)))
            if n <= 5: qs.append(Query('sample[n=%d,%s]' % (n, tag), 'C12_pdf.cpp', 'harness_sample', defines=d, unwind=n + 6, timeout=to, bound='N=%d, weights k*%s' % (n, scale)))
            for k in range(n):
                dk = dict(d, K=k)
                qs.append(Query('remove[n=%d,k=%d,%s]' % (n, k, tag), 'C12_pdf.cpp', 'harness_remove', defines=dk, unwind=n + 6, timeout=to, bound='N=%d, K=%d, weights k*%s' % (n, k, scale)))
                qs.append(Query('update[n=%d,k=%d,%s]' % (n, k, tag), 'C12_pdf.cpp', 'harness_update', defines=dk, unwind=n + 6, timeout=to, bound='N=%d, K=%d, weights k*%s' % (n, k, scale)))
    qs.append(Query('add[n=0]', 'C12_pdf.cpp', 'harness_add', defines={'N': 0}, unwind=6, timeout=to, bound='N=0'))
    return qs
