"""C01 planner results: status/goal/path-check kernels (DESIGN §4 C01/C03)."""
from vt.pipeline import Query

CLAIM = ('Kernels every planner result rests on, on the real code: PlannerStatus(hasSolution, approximate) and operator bool for all flag '
         'combinations and status values; GoalRegion::isSatisfied (both overloads) for every goal distance/threshold: satisfied exactly when '
         'distance < threshold and the reported distance is the goal distance; PathGeometric::check() for a path of n stub states and EVERY '
         'validity assignment: passes exactly when the first state and every consecutive motion is valid, motions checked in order. '
         'SOLVE LOOP OF A REAL PLANNER: geometric::RRT::solve (real code incl. path assembly with make_shared<PathGeometric>, PathGeometric::append) against a fully nondeterministic '
         'environment - start states, sampler and goal sampling, ANY stored motion as nearest neighbour, every distance, every motion-validity and goal verdict, the termination condition '
         'firing at evaluation 0..k: a solution status is returned exactly when one path was added; the path starts at a start state, every consecutive pair was accepted by the motion '
         'validator, an exact solution ends on a state the goal accepted, an approximate one on the closest state tried with the reported difference being the goal\'s verdict on it and '
         'the status/flag agreeing; without a start state INVALID_START and no path; solve() stops at the first true evaluation of the termination condition; no state is leaked or freed twice.')
OUT = ('the solve loops of the other ~44 geometric/multilevel planners; RRT beyond the bound (more than 2 loop iterations / 2 starts), its addIntermediateStates mode, resumed solves with a '
       'populated tree, setup()/clear()/getPlannerData; bounds of path states and the 2x-resolution clause (states come from the stub space); an RRT::solve unit with every callee stubbed exists (C01_rrt.cpp, thorough tier) but is UNDECIDED - symbolic execution of the shared_ptr<PathGeometric> release path does not finish - and therefore not part of the claim')
ASSUMPTIONS = ['state space, validity checker and motion validator are environment stubs',
               'RRT unit: Planner::checkValidity/getName, PlannerInputStates::nextStart, PlannerTerminationCondition::eval, ProblemDefinition::addSolutionPath, StateSpace::cloneState and __dynamic_cast are harness definitions; shared_ptr release is a C-level model (use count decrement; dropping the last reference is reported); the nearest-neighbour structure returns ANY stored motion']
TUS = ['src/ompl/base/src/Planner.cpp', 'src/ompl/base/goals/src/GoalRegion.cpp', 'src/ompl/geometric/src/PathGeometric.cpp', 'src/ompl/base/src/SpaceInformation.cpp']


def queries(tier):
    to = 300 if tier == 'quick' else 1200
    qs = [Query('status', 'C01_kernels.cpp', 'harness_status', tus=TUS, unwind=6, timeout=to, stdmodel=('vec',), defines={'NS': 1, 'VT_VEC_CAP': 8}, checks='none', bound='all flag combinations and status values'),
          Query('goal_region', 'C01_kernels.cpp', 'harness_goal_region', tus=TUS, unwind=6, timeout=to, stdmodel=('vec',), defines={'NS': 1, 'VT_VEC_CAP': 8}, checks='none', bound='every non-NaN distance and threshold')]
    for ns in ([0, 1, 2, 4] if tier == 'quick' else [0, 1, 2, 3, 4, 6, 8]):
        qs.append(Query('path_check[n=%d]' % ns, 'C01_kernels.cpp', 'harness_path_check', tus=TUS, unwind=ns + 6, timeout=to, stdmodel=('vec',), defines={'NS': ns, 'VT_VEC_CAP': ns + 4},
                        checks='none', bound='path of %d states, every validity assignment' % ns))
    from vt.props.common_spaces import RNG_ENV
    RTUS = ['src/ompl/geometric/planners/rrt/src/RRT.cpp', 'src/ompl/geometric/src/PathGeometric.cpp', 'src/ompl/base/src/SpaceInformation.cpp']
    # the module is compiled with -fno-inline so that shared_ptr's _M_release is a function whose translated body is replaced by a model (c_override):
    # otherwise the devirtualised release/dispose/destroy calls of the reported path's control block fan out recursively and symbolic execution never ends
    REL = {'_ZNSt16_Sp_counted_baseILN9__gnu_cxx12_Lock_policyE2EE10_M_releaseEv':
           '  /* model of shared_ptr release: the use count drops by one; dropping the LAST reference (dispose/destroy through the control block) is not\n'
           '     modelled - the reported path stays referenced by the problem definition - and is reported if it happens */\n'
           '  int32_t *uc = (int32_t*)((uint8_t*)v_0 + 8);\n  *uc = *uc - 1;\n'
           '  if (*uc == 0) { VT_ASSERT(0, "shared_ptr model: the last reference to an object was dropped inside solve()"); __CPROVER_assume(0); }'}
    for nst, mit in ([(0, 1), (1, 1), (1, 2)] if tier == 'quick' else [(0, 1), (1, 1), (1, 2), (2, 2), (1, 3)]):
        qs.append(Query('rrt_solve[starts=%d,iterations<=%d]' % (nst, mit), 'C01_rrt.cpp', 'harness_rrt_solve', tus=RTUS, defines={'NSTART': nst, 'MAXIT': mit, 'VT_VEC_CAP': 8}, stdmodel=('vec',),
                        cxxflags=RNG_ENV + ('-fno-inline',), c_override=REL, unwind=mit + nst + 4, timeout=to, checks='none', mem_gb=20,
                        bound='geometric::RRT::solve with %d start states, termination condition firing at evaluation 0..%d, every sampler/nearest/distance/validity/goal outcome' % (nst, mit)))
    # (4 M variables: undecided within the quick budget - thorough tier)
    for nst, mit in ([] if tier == 'quick' else [(1, 1), (1, 2)]):
        qs.append(Query('rrt_solve[intermediate states,starts=%d,iterations<=%d]' % (nst, mit), 'C01_rrt.cpp', 'harness_rrt_solve', tus=RTUS, defines={'NSTART': nst, 'MAXIT': mit, 'INTERMEDIATE': 1, 'VT_VEC_CAP': 8}, stdmodel=('vec',),
                        cxxflags=RNG_ENV + ('-fno-inline',), c_override=REL, unwind=2 * mit + nst + 4, timeout=to, checks='none', mem_gb=20,
                        bound='geometric::RRT::solve in addIntermediateStates mode (motions of 1 or 2 segments; getMotionStates is an environment model) with %d start states, termination condition firing at evaluation 0..%d' % (nst, mit)))
    return qs
