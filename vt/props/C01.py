"""C01 planner results: status/goal/path-check kernels (DESIGN §4 C01/C03)."""
from vt.pipeline import Query

CLAIM = ('Kernels every planner result rests on, on the real code: PlannerStatus(hasSolution, approximate) and operator bool for all flag '
         'combinations and status values; GoalRegion::isSatisfied (both overloads) for every goal distance/threshold: satisfied exactly when '
         'distance < threshold and the reported distance is the goal distance; PathGeometric::check() for a path of n stub states and EVERY '
         'validity assignment: passes exactly when the first state and every consecutive motion is valid, motions checked in order.')
OUT = ('the solve loops of the ~45 geometric/multilevel planners (which states they put on the reported path, approximate bookkeeping, '
       'interruption): whole-planner runs with nearest-neighbour structures, samplers and shared_ptr/std::function plumbing are far beyond what '
       'the IR->CBMC route holds; an RRT::solve unit with every callee stubbed exists (C01_rrt.cpp, thorough tier) but is UNDECIDED - symbolic execution of the shared_ptr<PathGeometric> release path does not finish - and therefore not part of the claim')
ASSUMPTIONS = ['state space, validity checker and motion validator are environment stubs']
TUS = ['src/ompl/base/src/Planner.cpp', 'src/ompl/base/goals/src/GoalRegion.cpp', 'src/ompl/geometric/src/PathGeometric.cpp', 'src/ompl/base/src/SpaceInformation.cpp']


def queries(tier):
    to = 300 if tier == 'quick' else 1200
    qs = [Query('status', 'C01_kernels.cpp', 'harness_status', tus=TUS, unwind=6, timeout=to, stdmodel=('vec',), defines={'NS': 1, 'VT_VEC_CAP': 8}, checks='none', bound='all flag combinations and status values'),
          Query('goal_region', 'C01_kernels.cpp', 'harness_goal_region', tus=TUS, unwind=6, timeout=to, stdmodel=('vec',), defines={'NS': 1, 'VT_VEC_CAP': 8}, checks='none', bound='every non-NaN distance and threshold')]
    for ns in ([0, 1, 2, 4] if tier == 'quick' else [0, 1, 2, 3, 4, 6, 8]):
        qs.append(Query('path_check[n=%d]' % ns, 'C01_kernels.cpp', 'harness_path_check', tus=TUS, unwind=ns + 6, timeout=to, stdmodel=('vec',), defines={'NS': ns, 'VT_VEC_CAP': ns + 4},
                        checks='none', bound='path of %d states, every validity assignment' % ns))
    from vt.props.common_spaces import RNG_ENV
    RTUS = ['src/ompl/geometric/planners/rrt/src/RRT.cpp', 'src/ompl/geometric/src/PathGeometric.cpp', 'src/ompl/base/src/SpaceInformation.cpp']
    # NOT decided in this revision (symbolic execution does not finish: the shared_ptr control block of the reported path makes the
    # devirtualised release/dispose/destroy calls fan out recursively) - kept as a thorough-tier attempt, never part of the claim unless it returns a verdict
    for nst, mit in ([] if tier == 'quick' else [(0, 1), (1, 1)]):
        qs.append(Query('rrt_solve[starts=%d,iterations<=%d]' % (nst, mit), 'C01_rrt.cpp', 'harness_rrt_solve', tus=RTUS, defines={'NSTART': nst, 'MAXIT': mit, 'VT_VEC_CAP': 8}, stdmodel=('vec',),
                        cxxflags=RNG_ENV, unwind=mit + nst + 4, timeout=to, checks='none', mem_gb=20,
                        bound='geometric::RRT::solve with %d start states, termination condition firing at evaluation 0..%d, every sampler/nearest/distance/validity/goal outcome' % (nst, mit)))
    return qs
