"""C18 termination conditions, sequential semantics (DESIGN §4 C18)."""
from vt.pipeline import Query

CLAIM = ('Real PlannerTerminationCondition.cpp / IterationTerminationCondition.cpp / CostConvergenceTerminationCondition.cpp: the '
         'j-th evaluation of the iteration condition is true exactly when j>n (any 32-bit n, arbitrary counter state; also through '
         'the std::function conversion with shared copies); a predicate condition evaluates to the predicate or to true for ever once '
         'terminate() was requested on any copy, for every 4-step trace of predicate values and terminate() interleavings; always/never '
         'conditions are constant; or/and/nested combinations follow the truth table incl. terminate() on operands; the timed condition '
         'against an arbitrary non-decreasing clock is false before and true after the duration and never reverts; the exact-solution '
         'condition mirrors hasExactSolution(); one step of the cost-convergence condition from an arbitrary (average,count) state fires '
         'exactly when the window is full and the new moving average is within the relative threshold.')
OUT = ('the evaluation thread of the periodic form (start/stop, "no later than one period"; only eval() on an arbitrary cached verdict is checked) and terminate() from another thread - '
       'threads are not encodable (std::thread start is a fatal stub); nesting depth above 2; Planner::solve(double) wiring')
ASSUMPTIONS = ['std::chrono::system_clock::now() is an arbitrary non-decreasing clock', 'logging is a no-op',
               'ProblemDefinition::hasExactSolution is a symbolic bit', 'real libstdc++ std::function/make_shared code is part of the encoded IR']
TU = ['src/ompl/base/terminationconditions/src/IterationTerminationCondition.cpp',
      'src/ompl/base/terminationconditions/src/CostConvergenceTerminationCondition.cpp']


def queries(tier):
    to = 300 if tier == 'quick' else 900
    qs = []
    for e, uw in (('iteration', 6), ('iteration_ptc', 8), ('predicate', 6), ('constants', 5), ('or_and', 5), ('nested', 5),
                  ('exact_solution', 5), ('impl_eval', 5)):
        qs.append(Query(e, 'C18_ptc.cpp', 'harness_' + e, tus=TU, unwind=uw, timeout=to, bound='see harness: traces of <=4 evaluations'))
    for ms in ([0, 1, 999, 1500, 60000] if tier == 'quick' else [0, 1, 2, 10, 999, 1000, 1001, 1500, 2500, 60000, 3600000, 99999999]):
        qs.append(Query('timed[ms=%d]' % ms, 'C18_ptc.cpp', 'harness_timed', tus=TU, defines={'MS': ms}, unwind=6, timeout=to,
                        bound='duration %d ms, arbitrary non-decreasing 64-bit clock, 3 evaluations' % ms))
    for w in ([1, 3] if tier == 'quick' else [1, 2, 3, 4, 10]):
        qs.append(Query('cost_convergence[window=%d]' % w, 'C18_ptc.cpp', 'harness_cost_convergence', tus=TU, defines={'WINDOW': w, 'SMALLCOSTS': 1},
                        unwind=4, timeout=to, backends=('cadical', 'kissat'),
                        bound='window=%d, average/cost in {0,0.25,..,255.75}, epsilon in {0,0.1,0.25,0.5}, <=1000 earlier solutions' % w))
    if tier == 'thorough':
        qs.append(Query('cost_convergence[window=3,full doubles]', 'C18_ptc.cpp', 'harness_cost_convergence', tus=TU, defines={'WINDOW': 3},
                        unwind=4, timeout=1800, backends=('cadical', 'kissat', 'minisat'), bound='window=3, all doubles in [0,1e6], eps in [0,0.5]'))
    return qs
