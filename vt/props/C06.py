"""C06 distance laws (DESIGN §4 C06)."""
from vt.props import common_spaces as cs

CLAIM = ('Real distance()/equalStates()/getMaximumExtent() code of SO(2), R^n (n<=2), Time and Discrete, for EVERY in-bounds double/int '
         '(bounds themselves symbolic): non-negative, zero to itself, bitwise symmetric and positive between non-equal states (R^n: thorough tier only), not above '
         'the maximum extent (SO2, Time, Discrete; R^1 attempted), triangle inequality for Discrete (proved) and refutation-only '
         'for float spaces.')
OUT = ('SO(3) beyond the self-distance query (4-term quaternion products: antipodal/metric queries undecided within the quick budget, thorough only), proofs of the triangle inequality for float spaces (attempted in the thorough tier, reported undecided if so), R^n extent for n>1, '
       'SO3/SE3/Sphere/Torus/Mobius/Klein (transcendental or multiplier-heavy), Dubins/RS (C14), compound weighting (thorough)')
ASSUMPTIONS = ['|bounds| <= 1e6 for R^n/Time, |bounds| <= 1e6 for Discrete']


def queries(tier):
    qs = [cs.so2('distance', tier, bound='every pair of doubles in [-pi,pi)'),
          cs.rv('distance', tier, 1, bound='dim 1, symbolic bounds, every in-bounds pair'),
          cs.rv('distance', tier, 2, bound='dim 2, symbolic bounds, every in-bounds pair', backends=('cadical', 'kissat')),
          cs.misc('time_distance', tier, bound='bounded/unbounded, symbolic bounds, every in-bounds pair', backends=('cadical', 'kissat')),
          cs.misc('discrete_distance', tier, bound='symbolic bounds in [-1e6,1e6], every in-bounds triple')]
    qs.append(cs.compound('metric', tier, bound='3 stub components, symbolic weights incl. zeros, symbolic component distances/extents'))
    qs.append(cs.mobius('symmetry', tier, bound='every in-bounds pair, strip half-width symbolic in [0,1e3] (proof side usually undecided; refutes asymmetry within ~2 min)', backends=('cadical', 'kissat') if tier == 'quick' else ('cadical', 'kissat', 'minisat'), timeout=240 if tier == 'quick' else 1800))
    if tier == 'thorough': qs.append(cs.so3('antipodal', tier, timeout=1800, bound='every in-bounds quaternion q against q and -q', backends=('cadical', 'kissat', 'minisat')))
    if tier == 'thorough': qs.append(cs.so3('metric', tier, bound='every pair of in-bounds quaternions with coefficients in [-2,2]', uf=('fmul', 'fadd'), note='fmul/fadd abstracted (consistency claims); exact-arithmetic fallback on failure', timeout=1800))
    if tier == 'thorough': qs.append(cs.so3('self', tier, timeout=1200, bound='every in-bounds quaternion', extra_cbmc=('-DVT_SQRT_ACCURATE',), backends=('cadical', 'kissat')))
    qs.append(cs.mobius('self', tier, bound='every in-bounds state'))
    qs.append(cs.mobius('triangle', tier, bound='every in-bounds triple (refutation side only is expected to be decided)', backends=('cadical', 'kissat')))
    if tier == 'thorough':
        qs += [cs.so2('triangle', tier, bound='every in-bounds triple', backends=('cadical', 'kissat', 'minisat'), timeout=1800),
               cs.misc('time_triangle', tier, bound='every in-bounds triple', backends=('cadical', 'kissat', 'minisat'), timeout=1800),
               cs.misc('time_extent', tier, bound='every in-bounds pair', backends=('cadical', 'kissat', 'minisat'), timeout=1800),
               cs.rv('symmetric', tier, 1, bound='dim 1', backends=('cadical', 'kissat', 'minisat'), timeout=1800),
               cs.rv('positive', tier, 1, bound='dim 1', backends=('cadical', 'kissat', 'minisat'), timeout=1800),
               cs.rv('extent', tier, 1, bound='dim 1', backends=('cadical', 'kissat', 'minisat'), timeout=1800)]
    return qs
