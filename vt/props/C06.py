"""C06 distance laws (DESIGN §4 C06)."""
from vt.pipeline import Query
from vt.props import common_spaces as cs

CLAIM = 'metric laws of the real distance()/equalStates()/getMaximumExtent() code for float-light spaces, for every in-bounds double'
OUT = 'triangle inequality proofs for float spaces (refutation only), R^n with n>2, SO3/SE3/Sphere (transcendental), Dubins/RS (C14)'
ASSUMPTIONS = []


def queries(tier):
    qs = [cs.so2('distance', tier, bound='every pair of doubles in [-pi,pi)')]
    return qs
