"""C15 informed sampling: accept/reject logic (DESIGN §4 C15)."""
from vt.pipeline import Query

CLAIM = ('Real RejectionInfSampler::sampleUniform (one- and two-bound forms) and InformedSampler::heuristicSolnCost against a stub base sampler and '
         'a stub objective with EVERY heuristic table (values k/2, k<=31) for 1-3 start states: the heuristic through a state is the best over '
         'all starts; a successful sample has heuristic cost strictly below the upper bound (and not below the lower bound), within the '
         'configured number of attempts; failure only after all attempts, none of whose states could still help. '
         'Direct path-length sampler: real keepSample / numberOfPhsInclusions / isInAnyPhs with the hyperspheroids as environment stubs (every membership pattern of 1-3 PHSs, '
         'recorded uniform draw): a candidate inside K overlapping hyperspheroids is kept exactly when the draw is below 1/K (always for K = 1), whatever the number of goals - '
         'the rejection that keeps the density uniform where hyperspheroids overlap.')
OUT = ('the geometry of the direct path-length sampler (prolate hyperspheroid transform, Eigen SVD rotation, tgamma/pow measure, PHS selection weights, retry loop against the bounds, '
       'uniformity, "no helpful state excluded"), OrderedInfSampler, bounds of the sampled states (base sampler contract)')
ASSUMPTIONS = ['base sampler, objective heuristic and cost-to-go (absent: identity cost) are environment stubs']
TUS = ['src/ompl/base/samplers/informed/src/RejectionInfSampler.cpp', 'src/ompl/base/samplers/src/InformedStateSampler.cpp', 'src/ompl/base/src/OptimizationObjective.cpp']


def queries(tier):
    to = 300 if tier == 'quick' else 1200
    qs = []
    for ns in (1, 2, 3):
        qs.append(Query('heuristic[starts=%d]' % ns, 'C15_informed.cpp', 'harness_heuristic', tus=TUS, defines={'NSTART': ns, 'ITERS': 2, 'VT_VEC_CAP': 6}, stdmodel=('vec',),
                        unwind=8, timeout=to, checks='none', bound='%d start states, every heuristic table' % ns))
        for it in ([1, 3] if tier == 'quick' else [1, 2, 3, 5]):
            for e in ('rejection_one_bound', 'rejection_two_bounds'):
                if e == 'rejection_two_bounds' and ns == 3 and tier == 'quick': continue
                qs.append(Query('%s[starts=%d,attempts=%d]' % (e, ns, it), 'C15_informed.cpp', 'harness_' + e, tus=TUS, defines={'NSTART': ns, 'ITERS': it, 'VT_VEC_CAP': 6},
                                stdmodel=('vec',), unwind=it + 6, timeout=to, checks='none', bound='%d start states, %d attempts, every heuristic table and cost bound' % (ns, it)))
    from vt.props.common_spaces import RNG_ENV
    for n in ([1, 2, 3] if tier == 'quick' else [1, 2, 3, 4]):
        qs.append(Query('direct_keep_sample[phs=%d]' % n, 'C15_direct.cpp', 'harness_keep_sample', tus=['src/ompl/base/samplers/informed/src/PathLengthDirectInfSampler.cpp', 'src/ompl/base/src/OptimizationObjective.cpp'],
                        defines={'NPHS': n}, cxxflags=RNG_ENV + ('-DVT_RNG_RECORD',), unwind=n + 4, timeout=to, checks='none',
                        bound='%d hyperspheroids (start/goal pairs), every membership pattern, every uniform draw in [0,1), 1-3 goals' % n))
    return qs
