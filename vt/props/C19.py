"""C19 concurrency slices (DESIGN §4 C19)."""
from vt.pipeline import Query
CLAIM = ('Context-bounded sequentialization of TWO threads over the real code (vt/include/vt_seq.h; the pipeline puts a preemption point before every '
         'load/store/atomic operation of the selected library functions; the solver chooses at which one the other thread\'s whole operation runs): '
         '(1) two concurrent DiscreteMotionValidator::checkMotion calls on one validator return the sequential verdicts and the motion counters equal the '
         'number of calls made; (2) terminate() arriving from another thread at any memory access of the periodic evaluation worker (real periodicEval loop, '
         'every predicate trace) makes eval() report true from then on; (3) two threads drawing from the locked RNG seed generator get the two next seeds of '
         'the sequence, one each, and the lock is released.')
OUT = ('schedules needing more than two context switches (thread A prefix / thread B complete / thread A rest is what is explored), more than two threads, '
       'weak-memory reorderings and C++-level data-race freedom of plain accesses (the model is sequentially consistent at IR-instruction granularity: a race on a '
       'plain bool such as terminate_ is NOT reported), thread creation/join (std::thread), the thread-safe GNAT, ProblemDefinition solution set, state-space '
       'registry, logging, and every multi-threaded planner (pRRT, pSBL, CForest, PRM two-thread solve, AnytimePathShortening)')
ASSUMPTIONS = ['two threads; interleavings = (A prefix, B complete, A rest) with the switch point chosen by the solver among all memory accesses of the instrumented functions, or B after A',
               'sequential consistency; an access instruction of the IR is atomic',
               'locks: pthread_mutex_lock/unlock renamed to the model in vt/stubs/threads.c; a schedule in which the second thread would block is cut',
               'RNG engine/distribution are an environment model (one read-modify-write per draw); the worker thread\'s sleep returns at once and the owner stops the worker after two sleeps']


def queries(tier):
    to = 300 if tier == 'quick' else 1200
    return [Query('motion_counters[2 threads]', 'C19_threads.cpp', 'harness_motion_counters', tus=['src/ompl/base/src/DiscreteMotionValidator.cpp'], stubs=('threads.c',), yield_in='DiscreteMotionValidator',
                  unwind=4, timeout=to, stdmodel=True, bound='2 threads, one checkMotion each (segment count 1)'),
            Query('ptc_terminate_vs_worker[2 threads]', 'C19_ptc.cpp', 'harness_terminate_vs_worker', stubs=('threads.c',), yield_in='PlannerTerminationConditionImpl|St6atomic|St13__atomic_base', cxxflags=('-fno-inline',), unwind=6, timeout=to,
                  bound='worker thread (<=3 predicate evaluations, every predicate trace) vs terminate() at every memory access of the worker'),
            Query('next_seed[2 threads]', 'C19_seed.cpp', 'harness_next_seed', stubs=('threads.c',), yield_in='RNGSeedGenerator|subtract_with_carry|uniform_int|St6atomic|St13__atomic_base', cxxflags=('-fno-inline',), unwind=6, timeout=to,
                  renames={'pthread_mutex_lock': 'vt_mutex_lock', 'pthread_mutex_unlock': 'vt_mutex_unlock', 'pthread_rwlock_rdlock': 'vt_rwlock_rdlock', 'pthread_rwlock_wrlock': 'vt_rwlock_wrlock', 'pthread_rwlock_unlock': 'vt_rwlock_unlock'}, bound='2 threads, one nextSeed() each, every engine state')]
