"""C07 interpolation (DESIGN §4 C07)."""
from vt.props import common_spaces as cs
CLAIM = ('Real interpolate() code of SO(2), R^n (n<=2), Time, Discrete for EVERY in-bounds pair and every t in [0,1]: result satisfies the '
         'bounds, t=0 yields the first state, output aliasing either input gives bit-identical results (float operations abstracted by '
         'uninterpreted functions for that equality claim), Discrete: t=1 yields the second state and the value lies between the endpoints.')
OUT = ('t=1 and proportional-distance/re-parameterisation laws for float spaces (rounding proofs: thorough tier attempts t=1 for SO2), '
       'SO3 slerp, Sphere, Torus, Mobius, Klein, Dubins/RS (C14), dims>2, compound delegation (thorough)')
ASSUMPTIONS = []
def queries(tier):
    qs = [cs.so2('interp_bounds', tier, bound='every in-bounds pair, every t in [0,1]'),
          cs.so2('t0', tier, bound='every in-bounds pair'),
          cs.rv('interp_bounds', tier, 1, bound='dim 1, symbolic bounds, every in-bounds pair, t in [0,1]', backends=('cadical', 'kissat')),
          cs.rv('t0', tier, 2, bound='dim 2'),
          cs.misc('time_interp', tier, bound='every in-bounds pair, t in [0,1]', backends=('cadical', 'kissat')),
          cs.misc('discrete_interp', tier, bound='bounds within [-15,15], every pair, t in [0,1]', backends=('cadical', 'kissat'), defines={'DRANGE': 15})]
    qs.append(cs.compound('interpolate', tier, bound='3 stub components, every t'))
    if tier == 'thorough': qs.append(cs.so3('same_rotation_interp', tier, timeout=1800, bound='every in-bounds quaternion q interpolated towards q and -q (distance 0), every t', backends=('cadical', 'kissat')))
    if tier == 'thorough': qs.append(cs.so3('zero_angle', tier, bound='every pair of in-bounds quaternions at distance 0, every t', extra_cbmc=('-DVT_SQRT_ACCURATE',), backends=('cadical', 'kissat'), timeout=1800))
    for al in (1, 2):
        q = cs.so2('interp_alias', tier, bound='every in-bounds pair, every t in [0,1]; output aliases input %d' % al, defines={'ALIAS': al}, uf=('fmul', 'fadd', 'fsub'),
                   note='fmul, fadd, fsub abstracted by uninterpreted functions (sound for this equality claim)')
        q.name += '[%d]' % al
        qs.append(q)
        q = cs.rv('interp_alias', tier, 2, bound='dim 2; output aliases input %d' % al, defines={'ALIAS': al}, uf=('fmul', 'fadd', 'fsub'),
                  note='fmul, fadd, fsub abstracted by uninterpreted functions (sound for this equality claim)')
        q.name += '[%d]' % al
        qs.append(q)
    if tier == 'thorough':
        qs.append(cs.misc('discrete_interp', tier, name='discrete_interp[range=1000]', bound='bounds within [-1000,1000]', backends=('cadical', 'kissat', 'minisat'), defines={'DRANGE': 1000}, timeout=1800))
        qs.append(cs.so2('t1', tier, bound='every in-bounds pair', backends=('cadical', 'kissat', 'minisat'), timeout=1800))
    return qs
