"""C07 interpolation (DESIGN §4 C07)."""
from vt.props import common_spaces as cs
CLAIM = 'interpolate() of float-light spaces on the real code: bounds, endpoints, aliasing for every in-bounds double pair and t in [0,1]'
OUT = 'SO3 slerp, Sphere, Klein embedding, Dubins/RS (C14), dims>2, re-parameterisation/proportional-distance laws for float spaces unless listed'
ASSUMPTIONS = []
def queries(tier):
    qs = [cs.so2('interp_bounds', tier, bound='every in-bounds pair, every t in [0,1]'),
          cs.so2('t0', tier, bound='every in-bounds pair')]
    for al in (1, 2):
        q = cs.so2('interp_alias', tier, bound='every in-bounds pair, every t in [0,1]; output aliases input %d' % al, defines={'ALIAS': al}, uf=('fmul', 'fadd', 'fsub'),
                   note='fmul, fadd, fsub abstracted by uninterpreted functions (sound for this equality claim)')
        q.name += '[%d]' % al
        qs.append(q)
    if tier == 'thorough':
        qs.append(cs.so2('t1', tier, bound='every in-bounds pair', backends=('cadical', 'kissat', 'minisat'), timeout=1800))
    return qs
