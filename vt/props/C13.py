"""C13 grids (DESIGN §4 C13): every subset-history over a fixed universe of coordinates."""
from vt.pipeline import Query

CLAIM = ('Real Grid/GridN/GridB code (with the real BinaryHeap and real Eigen::VectorXi coordinates) run on EVERY history of the form '
         '"visit the cells of a fixed universe in order and skip / create+add / create+abandon each, then remove a subset again" with '
         'symbolic choices and symbolic cell data: lookups find exactly the present cells, neighbour lists are exactly the present cells '
         'differing by one in a single dimension (no duplicates), size agrees; GridN/GridB neighbour counts and interior/border flags '
         'equal recomputation incl. symbolic bounds and a symbolic interior limit; in GridB every cell sits in exactly the queue of its class, queue '
         'sizes add up, tops are the best border / interior cell under two DIFFERENT order functors. Grid: every removed subset is symbolic; '
         'GridN/GridB: add/abandon/remove sequences and GridB key order types are case-split (CBMC then executes the real code bit-precisely; '
         'only limit/bounds/one key stay symbolic).')
OUT = ('components() (undecided even on concrete subsets - not claimed), universes other than the listed shapes (lines of 4-5, 2x2, 2x3, plus+detached, 2x2x2), re-adding a removed coordinate, update()/updateAll() '
       'after data changes (thorough only), hash-function quality, status() printing, topInternal()/topExternal() on two empty queues')
ASSUMPTIONS = ['std::unordered_map is a bounded association-list model using the real KeyEqual functor (vt/stdmodel/unordered_map)']

SHAPES = {0: 'line4', 1: 'block2x2', 2: 'block2x3', 3: 'plus+1', 4: 'line5', 5: 'cube2x2x2'}
USIZE = {0: 4, 1: 4, 2: 6, 3: 6, 4: 5, 5: 8}


def queries(tier):
    qs = []
    to = 300 if tier == 'quick' else 900
    def grid(kind, shape, limit=0, bounds=0, add=None, ab=0, probe=None, rm=None, sym=None, perm=None):
        full = (1 << USIZE[shape]) - 1
        add = full & ~ab if add is None else add
        nm = '%s[%s%s%s,add=%x,abandon=%x%s]' % (('grid', 'gridn', 'gridb')[kind], SHAPES[shape], ',limit=%d' % limit if limit else '', ',bounds' if bounds else '', add, ab, ('' if probe is None else ',probe=%d' % probe) + ('' if rm is None else ',remove=' + '.'.join(map(str, rm))) + ('' if perm is None else ',keys=%x,symkey=%s' % (perm, sym)))
        qs.append(Query(nm, 'C13_grid.cpp', 'harness_grid', defines={'KIND': kind, 'SHAPE': shape, 'LIMIT': limit, 'BOUNDS': bounds, 'ADDMASK': add, 'ABMASK': ab, **({} if probe is None else {'PROBE': probe}), **({} if rm is None else {'RM%d' % (k + 1): v for k, v in enumerate(rm)}),
                                                                   **({} if perm is None else {'SYMCELL': 99 if sym is None else sym, 'DATAPERM': perm}),
                                                                   'VT_UMAP_CAP': USIZE[shape] + 1},
                        stdmodel=('um', 'vec'), unwind=(USIZE[shape] + 5) if sym is not None else (USIZE[shape] * USIZE[shape] * 4 + 6) if rm is not None else USIZE[shape] * 4 + 8, timeout=to, mem_gb=24, checks='none', new_cap=64,
                        bound='universe %s: cells %x added in order, cells %x created and abandoned, then %s; all int data' % (SHAPES[shape], add, ab, 'EVERY subset removed' if rm is None else 'cells %s removed in that order' % (rm,))))
    def comp(shape, masks=None):
        for m in (masks if masks is not None else range(1 << USIZE[shape])):
            qs.append(Query('components[%s,present=%x]' % (SHAPES[shape], m), 'C13_grid.cpp', 'harness_components',
                            defines={'KIND': 0, 'SHAPE': shape, 'VT_UMAP_CAP': USIZE[shape] + 1, 'PRESENT': m},
                            stdmodel=('um',), unwind=USIZE[shape] * USIZE[shape] * 2 + 10, timeout=to, mem_gb=20, checks='none',
                            bound='subset %x of universe %s (case split; no symbolic input: CBMC executes the real code bit-precisely)' % (m, SHAPES[shape])))
    import itertools
    def rmseqs(shape, maxlen):
        out = [(-1,)]
        for L in range(1, maxlen + 1):
            out += list(itertools.permutations(range(USIZE[shape]), L))
        return out
    def perms(shape, n):
        import random
        rnd = random.Random(13)
        base = list(range(1, USIZE[shape] + 1))
        out = []
        allp = list(itertools.permutations(base))
        rnd.shuffle(allp)
        for pm in allp[:n]:
            out.append(sum(v << (4 * i) for i, v in enumerate(pm)))
        out.append(sum(2 << (4 * i) for i in range(USIZE[shape])))                    # all keys tie
        out.append(sum((1 + (i & 1)) << (4 * i) for i in range(USIZE[shape])))        # two classes of ties
        return out
    # components(): NOT claimed - even with a concrete subset the query (std::sort over a vector of vectors, erase in the BFS queue)
    # was undecided after 900 s with both the model and the real std::vector; see DESIGN.md C13.
    if tier == 'quick':
        grid(0, 1, probe=0); grid(0, 1, probe=3); grid(0, 0)
        # GridN: removal sequence case-split; interior limit and grid bounds symbolic
        for rm in rmseqs(0, 1): grid(1, 0, rm=rm, limit=99, bounds=2)
        grid(1, 0, rm=(1, 2), limit=99, bounds=2); grid(1, 0, rm=(0, 3), limit=99, bounds=2); grid(1, 1, rm=(2,), limit=99, bounds=2)
        for ab in (2, 8):
            for rm in ((-1,), (0,)): grid(1, 0, ab=ab, rm=rm, limit=99, bounds=2)
        # GridB: (i) add-only history with one fully symbolic key, (ii) key order types x removal sequences (case split)
        grid(2, 0, rm=(-1,), sym=3, perm=0x4321)
        for pm in perms(0, 2):
            for rm in rmseqs(0, 1): grid(2, 0, rm=rm, perm=pm)
            grid(2, 0, rm=(1, 2), perm=pm)
            for ab in (2, 4): grid(2, 0, ab=ab, rm=(-1,), perm=pm); grid(2, 0, ab=ab, rm=(0,), perm=pm)
        for pm in perms(4, 2):
            for rm in ((-1,), (2,), (1, 3)): grid(2, 4, limit=1, rm=rm, perm=pm)
        for pm in perms(1, 1):
            for rm in ((-1,), (3,)): grid(2, 1, limit=2, rm=rm, perm=pm); grid(2, 1, bounds=1, rm=rm, perm=pm)
    else:
        for s in SHAPES:
            grid(0, s)
        for s in SHAPES:
            for rm in rmseqs(s, 2 if USIZE[s] <= 5 else 1):
                grid(1, s, rm=rm, limit=99, bounds=2)
                for j in range(USIZE[s]):
                    if j not in rm: grid(1, s, ab=1 << j, rm=rm, limit=99, bounds=2)
            grid(2, s, rm=(-1,), sym=USIZE[s] - 1, perm=sum((i + 1) << (4 * i) for i in range(USIZE[s])))
            for pm in perms(s, 6):
                for rm in rmseqs(s, 2 if USIZE[s] <= 5 else 1):
                    grid(2, s, rm=rm, perm=pm); grid(2, s, rm=rm, perm=pm, bounds=1)
                    for j in range(USIZE[s]):
                        if j not in rm: grid(2, s, ab=1 << j, rm=rm, perm=pm)
        for pm in perms(4, 6):
            for rm in rmseqs(4, 3): grid(2, 4, limit=1, rm=rm, perm=pm)
        for pm in perms(2, 6):
            for rm in rmseqs(2, 2): grid(2, 2, limit=2, rm=rm, perm=pm); grid(2, 2, limit=3, rm=rm, perm=pm)
    return qs
