"""C13 grids (DESIGN §4 C13): every subset-history over a fixed universe of coordinates."""
from vt.pipeline import Query

CLAIM = ('Real Grid/GridN/GridB code (with the real BinaryHeap and real Eigen::VectorXi coordinates) run on EVERY history of the form '
         '"visit the cells of a fixed universe in order and skip / create+add / create+abandon each, then remove a subset again" with '
         'symbolic choices and symbolic cell data: lookups find exactly the present cells, neighbour lists are exactly the present cells '
         'differing by one in a single dimension (no duplicates), size agrees; GridN/GridB neighbour counts and interior/border flags '
         'equal recomputation incl. bounds and a custom interior limit; in GridB every cell sits in exactly the queue of its class, queue '
         'sizes add up, tops are the best border / interior cell under two DIFFERENT order functors; components() is exactly the partition '
         'induced by the neighbour relation for every subset of the universe.')
OUT = ('universes other than the listed shapes (lines of 4-5, 2x2, 2x3, plus+detached, 2x2x2), re-adding a removed coordinate, update()/updateAll() '
       'after data changes (thorough only), hash-function quality, status() printing, topInternal()/topExternal() on two empty queues')
ASSUMPTIONS = ['std::unordered_map is a bounded association-list model using the real KeyEqual functor (vt/stdmodel/unordered_map)']

SHAPES = {0: 'line4', 1: 'block2x2', 2: 'block2x3', 3: 'plus+1', 4: 'line5', 5: 'cube2x2x2'}
USIZE = {0: 4, 1: 4, 2: 6, 3: 6, 4: 5, 5: 8}


def queries(tier):
    qs = []
    to = 600 if tier == 'quick' else 1800
    def grid(kind, shape, limit=0, bounds=0, add=None, ab=0, probe=None):
        full = (1 << USIZE[shape]) - 1
        add = full & ~ab if add is None else add
        nm = '%s[%s%s%s,add=%x,abandon=%x%s]' % (('grid', 'gridn', 'gridb')[kind], SHAPES[shape], ',limit=%d' % limit if limit else '', ',bounds' if bounds else '', add, ab, '' if probe is None else ',probe=%d' % probe)
        qs.append(Query(nm, 'C13_grid.cpp', 'harness_grid', defines={'KIND': kind, 'SHAPE': shape, 'LIMIT': limit, 'BOUNDS': bounds, 'ADDMASK': add, 'ABMASK': ab, **({} if probe is None else {'PROBE': probe}),
                                                                   'VT_UMAP_CAP': USIZE[shape] + 1},
                        stdmodel=True, unwind=USIZE[shape] + 4, timeout=to, mem_gb=20,
                        bound='universe %s: cells %x added in order, cells %x created and abandoned, then EVERY subset removed; all int data' % (SHAPES[shape], add, ab)))
    def comp(shape):
        qs.append(Query('components[%s]' % SHAPES[shape], 'C13_grid.cpp', 'harness_components', defines={'KIND': 0, 'SHAPE': shape, 'VT_UMAP_CAP': USIZE[shape] + 1},
                        stdmodel=True, unwind=USIZE[shape] * 2 + 4, timeout=to, mem_gb=20, bound='every subset of universe %s' % SHAPES[shape]))
    if tier == 'quick':
        grid(0, 1, probe=0); grid(0, 1, probe=3); grid(1, 0); grid(1, 1, bounds=1); grid(1, 0, ab=2); grid(2, 0); grid(2, 0, ab=4); grid(2, 4, limit=1); grid(2, 1, limit=2); grid(2, 1, ab=8)
        comp(1); comp(2)
    else:
        for s in SHAPES:
            grid(0, s); grid(1, s); grid(1, s, bounds=1); grid(2, s); grid(2, s, bounds=1)
            for j in range(USIZE[s]):
                grid(1, s, ab=1 << j); grid(2, s, ab=1 << j)
            comp(s)
        grid(2, 4, limit=1); grid(2, 1, limit=2); grid(2, 2, limit=2); grid(2, 2, limit=3); grid(1, 2, limit=3, bounds=1)
    return qs
