"""C16 constrained spaces: traversal logic (DESIGN §4 C16)."""
from vt.pipeline import Query

CLAIM = ('Traversal logic of the real ProjectedStateSpace::discreteGeodesic and ConstrainedStateSpace::geodesicInterpolate with the constraint '
         'projection, the ambient interpolation and every distance as symbolic environment values: every state stored on the geodesic was '
         'projected successfully, stored steps are the successive projected states in order and no farther apart than lambda*delta, a '
         'geodesic that reports success ends within delta of the target, temporaries are freed; geodesicInterpolate returns a member of '
         'the list for every t in [0,1].')
OUT = ('the numerics that make the property true on real manifolds: Newton projection, atlas charts, tangent-bundle variant, Eigen linear '
       'algebra, samplers; traversals longer than the stated number of steps (cut by an assumption)')
ASSUMPTIONS = ['Constraint::project succeeds or fails nondeterministically and its success is what "on the manifold" means here',
               'traversals longer than KMAX steps are cut by an assumption (unwinding assumption, stated)']
TUS = ['src/ompl/base/spaces/constraint/src/ProjectedStateSpace.cpp', 'src/ompl/base/spaces/constraint/src/ConstrainedStateSpace.cpp',
       'src/ompl/base/spaces/src/WrapperStateSpace.cpp', 'src/ompl/base/src/StateSpace.cpp']


def queries(tier):
    to = 400 if tier == 'quick' else 1500
    qs = []
    for k in ([1, 2, 3] if tier == 'quick' else [1, 2, 3, 4, 5]):
        qs.append(Query('discrete_geodesic[steps<=%d]' % k, 'C16_geodesic.cpp', 'harness_discrete_geodesic', tus=TUS, defines={'KMAX': k, 'VT_VEC_CAP': k + 4},
                        stdmodel=('vec',), unwind=k + 4, timeout=to, checks='none', uf=('fmul', 'fdiv', 'fadd'),
                        note='fmul/fdiv/fadd abstracted by uninterpreted functions (the step bound is compared with the same product the code computes)',
                        bound='at most %d traversal steps, every projection outcome, every distance value, delta in [1e-6,10], lambda in [1,10]' % k))
    for n in ([1, 2, 3] if tier == 'quick' else [1, 2, 3, 4]):
        qs.append(Query('geodesic_interpolate[n=%d]' % n, 'C16_geodesic.cpp', 'harness_geodesic_interpolate', tus=TUS, defines={'NG': n, 'KMAX': 3, 'VT_VEC_CAP': 8},
                        stdmodel=('vec',), unwind=n + 4, timeout=to, checks='none', backends=('cadical', 'kissat'), bound='geodesic of %d states, every t in [0,1]' % n))
    return qs
