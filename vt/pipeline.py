#!/usr/bin/env python3
"""Verification pipeline: real OMPL sources -> LLVM IR -> C (ir2c) -> CBMC, with witness twins,
native replay of counterexamples and translator validation.  See /verif/DESIGN.md §2.

Nothing here decides a property by sampling: the verdict of every query is CBMC's (SAT back end) over all
values of the nondet inputs inside the stated bound.  Random streams are used only to cross-check the
translator (gcc build of the generated C vs clang build of the same IR)."""
import hashlib, json, os, re, resource, shutil, signal, subprocess, sys, tempfile, threading, time
from concurrent.futures import ThreadPoolExecutor

VT = os.path.dirname(os.path.abspath(__file__))
VERIF = os.path.dirname(VT)
REPO = os.environ.get('VT_REPO', '/repo')
GUARD = 'OMPL_VERIF'
CLANGXX, CLANG, LLVM_LINK, OPT, CXXFILT = 'clang++-14', 'clang-14', 'llvm-link-14', 'opt-14', 'llvm-cxxfilt-14'
CXXFLAGS = ['-std=c++17', '-O1', '-fno-vectorize', '-fno-slp-vectorize', '-fno-unroll-loops', '-ffp-contract=off',
            '-fno-access-control', '-fno-threadsafe-statics', '-fno-stack-protector', '-DNDEBUG', '-D' + GUARD,
            '-DEIGEN_DONT_VECTORIZE', '-DEIGEN_MAX_ALIGN_BYTES=0', '-w']
ALLOWED_BODYLESS = re.compile(r'^(nondet_\w+|__CPROVER_\w+|malloc|free|memcpy|memmove|memset|abort|sqrt|fabs|floor|ceil|'
                              r'fmin|fmax|round|trunc|copysign|rint|nearbyint|strlen|memcmp|strcmp)$')


class Query:
    """One solver query = one harness entry under one concrete size/case split."""

    def __init__(self, name, harness, entry, tus=(), defines=None, unwind=8, stubs=(), stdmodel=False, timeout=120,
                 mem_gb=12, backends=('cadical',), checks='mem', bound='', silent_throw=False, renames=None,
                 known=None, allow_bodyless=(), expect_covers=None, extra_cbmc=(), cxxflags=(), note='',
                 validate=True, unwindset=(), uf=(), new_cap=0, tu_redirect=None, yield_in=None, c_override=None):
        self.name = name; self.harness = harness; self.entry = entry; self.tus = tuple(tus)
        self.defines = dict(defines or {}); self.unwind = unwind; self.stubs = tuple(stubs); self.stdmodel = tuple(stdmodel) if isinstance(stdmodel, (tuple, list)) else (('q',) if stdmodel else ())
        self.timeout = timeout; self.mem_gb = mem_gb; self.backends = tuple(backends); self.checks = checks
        self.bound = bound; self.silent_throw = silent_throw; self.renames = dict(renames or {})
        self.known = dict(known or {}); self.allow_bodyless = tuple(allow_bodyless)
        self.expect_covers = expect_covers; self.extra_cbmc = tuple(extra_cbmc); self.cxxflags = tuple(cxxflags)
        self.note = note; self.validate = validate; self.unwindset = tuple(unwindset); self.uf = tuple(uf); self.new_cap = new_cap; self.tu_redirect = dict(tu_redirect or {}); self.yield_in = yield_in; self.c_override = dict(c_override or {})

    def module_key(self):
        return (self.harness, tuple(sorted(self.defines.items())), self.tus, self.stdmodel,
                tuple(sorted(self.renames.items())), self.cxxflags, self.uf, tuple(sorted((k, v[0]) for k, v in self.tu_redirect.items())), self.yield_in, tuple(sorted(self.c_override.items())))


def sh(cmd, timeout=None, cwd=None, mem_gb=None, env=None):
    def pre():
        os.setsid()
        if mem_gb:
            lim = int(mem_gb * (1 << 30))
            resource.setrlimit(resource.RLIMIT_AS, (lim, lim))
    t0 = time.time()
    p = subprocess.Popen(cmd, stdout=subprocess.PIPE, stderr=subprocess.PIPE, cwd=cwd, preexec_fn=pre, env=env)
    try:
        out, err = p.communicate(timeout=timeout)
        to = False
    except subprocess.TimeoutExpired:
        try: os.killpg(p.pid, signal.SIGKILL)
        except ProcessLookupError: pass
        out, err = p.communicate()
        to = True
    return dict(rc=p.returncode, out=out.decode('utf-8', 'replace'), err=err.decode('utf-8', 'replace'),
                timeout=to, secs=time.time() - t0)


class BuildError(Exception):
    pass


def insert_yields(txt, fn_regex):
    out = []; cur = None; n = 0
    rx = re.compile(fn_regex)
    for ln in txt.split('\n'):
        if ln.startswith('define '):
            m = re.search(r'@("[^"]+"|[\w.$]+)\(', ln)
            nm = m.group(1).strip('"') if m else ''
            cur = nm if rx.search(nm) and not re.search(r'harness_|vt_', nm) else None   # (harness code and its lambdas are not instrumented)
        elif ln.startswith('}'):
            cur = None
        elif cur and re.match(r'\s+(%[\w.]+ = )?(load|store|atomicrmw|cmpxchg|fence) ', ln):
            out.append('  call void @vt_yield()'); n += 1
        out.append(ln)
    txt = '\n'.join(out)
    if n and not re.search(r'^(define|declare) [^@\n]*@vt_yield\(', txt, re.M):
        txt += '\ndeclare void @vt_yield()\n'
    return txt, n


class Pipeline:
    def __init__(self, workdir, seed=0, log=None):
        self.work = workdir
        self.seed = seed
        os.makedirs(workdir, exist_ok=True)
        self.locks = {}
        self.glock = threading.Lock()
        self.cache = {}
        self.log = log or (lambda *a: None)
        self.inc = os.path.join(workdir, 'inc')
        self.gen_config()
        self.tv = {}        # module dir -> translator validation record

    # ---- generated config.h (does not depend on /repo/_build)
    def gen_config(self):
        d = os.path.join(self.inc, 'ompl'); os.makedirs(d, exist_ok=True)
        src = open(os.path.join(REPO, 'src/ompl/config.h.in')).read()
        ver = '0.0.0'
        m = re.search(r'project\s*\(\s*ompl\s+VERSION\s+([0-9.]+)', open(os.path.join(REPO, 'CMakeLists.txt')).read(), re.I)
        if m: ver = m.group(1)
        mj, mn, pt = (ver.split('.') + ['0', '0'])[:3]
        src = src.replace('@PROJECT_VERSION@', ver).replace('@PROJECT_VERSION_MAJOR@', mj) \
                 .replace('@PROJECT_VERSION_MINOR@', mn).replace('@PROJECT_VERSION_PATCH@', pt)
        src = re.sub(r'#cmakedefine01 (\w+)', r'#define \1 0', src)
        open(os.path.join(d, 'config.h'), 'w').write(src)

    def once(self, key, fn):
        with self.glock:
            lk = self.locks.setdefault(key, threading.Lock())
        with lk:
            if key not in self.cache:
                try:
                    self.cache[key] = ('ok', fn())
                except BuildError as e:
                    self.cache[key] = ('err', e)
            st, v = self.cache[key]
            if st == 'err': raise v
            return v

    def incflags(self, stdmodel):
        f = ['-I' + os.path.join(VT, 'include')]
        for mname in (stdmodel if isinstance(stdmodel, (tuple, list)) else (('q',) if stdmodel else ())):
            f.append('-I' + os.path.join(VT, 'stdmodel', mname))
        f += ['-I' + os.path.join(REPO, 'src'), '-I' + self.inc, '-isystem', '/usr/include/eigen3']
        return f

    def compile_ll(self, src, out, defines, stdmodel, cxxflags=()):
        cmd = [CLANGXX] + CXXFLAGS + list(cxxflags) + ['-D%s=%s' % kv if kv[1] is not None else '-D%s' % kv[0] for kv in defines] \
              + self.incflags(stdmodel) + ['-S', '-emit-llvm', '-o', out, src]
        r = sh(cmd, timeout=600)
        if r['rc'] != 0:
            raise BuildError('clang failed on %s:\n%s' % (src, r['err'][-4000:]))
        return out

    def tu_ll(self, tu, stdmodel, cxxflags, model_defines=(), redirect=None):
        # capacities of the bounded std models (VT_*_CAP) must be identical in every TU of a module (layout!)
        redirect = redirect or {}
        key = ('tu', tu, stdmodel, cxxflags, tuple(model_defines), tuple(sorted((k, v[0]) for k, v in redirect.items())))
        def build():
            h = hashlib.sha1(repr(key).encode()).hexdigest()[:10]
            out = os.path.join(self.work, 'tu_%s_%s.ll' % (os.path.basename(tu).replace('.cpp', ''), h))
            self.compile_ll(os.path.join(REPO, tu), out, list(model_defines), stdmodel, cxxflags)
            if redirect:
                # IR-level cut of internal-linkage callees (anonymous namespace): every CALL of <mangled> goes to the harness's
                # environment stub <stub> instead (the definition stays behind, unused); the declaration is supplied by the query
                txt = open(out).read()
                n = 0
                for mangled, (stub, decl) in redirect.items():
                    txt, k = re.subn(r'call (fastcc )?([^@\n]*)@%s\(' % re.escape(mangled), lambda m: 'call ' + m.group(2) + '@' + stub + '(', txt)
                    n += k
                    if k: txt += '\n' + decl + '\n'
                if n == 0: raise BuildError('tu_redirect: no call site found in ' + tu)
                open(out, 'w').write(txt)
            return out
        return self.once(key, build)

    def module(self, q):
        key = ('mod',) + q.module_key()
        def build():
            h = hashlib.sha1(repr(key).encode()).hexdigest()[:12]
            d = os.path.join(self.work, 'm_' + h); os.makedirs(d, exist_ok=True)
            t0 = time.time()
            hll = self.compile_ll(os.path.join(VT, 'harness', q.harness), os.path.join(d, 'h.ll'),
                                  sorted(q.defines.items()), q.stdmodel, q.cxxflags)
            mdefs = tuple(sorted((k, v) for k, v in q.defines.items() if k.startswith('VT_') and k.endswith('_CAP')))
            tus = [self.tu_ll(t, q.stdmodel, q.cxxflags, mdefs, q.tu_redirect) for t in q.tus]
            entries = sorted(set(re.findall(r'^define [^@]*@(harness_\w+)\(', open(hll).read(), re.M)))
            if not entries: raise BuildError('no harness_* entry in ' + q.harness)
            overridden = []
            if tus:
                hdefs = set(re.findall(r'^define (?!linkonce_odr|internal|weak_odr|available_externally)[^@]*@("[^"]+"|[\w.$]+)\(', open(hll).read(), re.M))
                for t in tus:
                    tdefs = set(re.findall(r'^define (?!linkonce_odr|internal|weak_odr|available_externally)[^@]*@("[^"]+"|[\w.$]+)\(', open(t).read(), re.M))
                    overridden += sorted(hdefs & tdefs)
                r = sh([LLVM_LINK, '-S', '-o', os.path.join(d, 'all.ll')] + tus + ['--override=' + hll], timeout=300)
                if r['rc'] != 0: raise BuildError('llvm-link: ' + r['err'][-3000:])
            else:
                shutil.copy(hll, os.path.join(d, 'all.ll'))
            # static constructors are never run by the analysed entry points (objects are built by the harness): drop the
            # ctor table so that what it keeps alive (iostream init, boost singletons ...) is pruned, in CBMC and natively alike
            txt = open(os.path.join(d, 'all.ll')).read()
            txt = re.sub(r'^@llvm\.(global_ctors|used|compiler\.used) = .*$', '', txt, flags=re.M)
            if q.yield_in:
                # context-bounded sequentialization (DESIGN C19): in the functions selected by the query, a call of the
                # harness's vt_yield() precedes every memory access (load/store/atomicrmw/cmpxchg/fence) - the points at
                # which the harness may run the OTHER thread's operation to completion
                txt, ny = insert_yields(txt, q.yield_in)
                if ny == 0: raise BuildError('yield_in: no memory access instrumented')
            open(os.path.join(d, 'all.ll'), 'w').write(txt)
            r = sh([OPT, '-enable-new-pm=0', '-S', '-internalize', '-internalize-public-api-list=' + ','.join(entries),
                    '-globaldce', '-lowerinvoke', '-simplifycfg', '-globaldce', '-lowerswitch',
                    os.path.join(d, 'all.ll'), '-o', os.path.join(d, 'module.ll')], timeout=300)
            if r['rc'] != 0: raise BuildError('opt: ' + r['err'][-3000:])
            if q.renames:
                txt = open(os.path.join(d, 'module.ll')).read()
                for a, b in q.renames.items():
                    txt = re.sub(r'@%s\b' % re.escape(a), '@' + b, txt)
                open(os.path.join(d, 'module.ll'), 'w').write(txt)
            r = sh([sys.executable, os.path.join(VT, 'ir2c.py'), os.path.join(d, 'module.ll'), os.path.join(d, 'module.c')] + (['--uf=' + ','.join(q.uf)] if q.uf else []), timeout=300)
            if r['rc'] != 0: raise BuildError('ir2c on %s: %s' % (q.harness, r['err'][-3000:]))
            if q.c_override:
                # environment cut at C level: the body of a translated function is replaced by the query's model (stated in the
                # evidence); used where the real body cannot be cut at link time (inline library templates)
                src = open(os.path.join(d, 'module.c')).read()
                for fname, body in q.c_override.items():
                    m = re.search(r'^([^\n;{}]*\b%s\([^;{}]*\))\n\{\n.*?^\}\n' % re.escape(fname), src, re.M | re.S)
                    if not m: raise BuildError('c_override: function %s not found in module.c' % fname)
                    repl = m.group(1) + '\n{\n' + body + '\n}\n'
                    pad = m.group(0).count('\n') - repl.count('\n')      # keep line numbers (nondet sites of the trace extraction) stable
                    if pad < 0: raise BuildError('c_override: model of %s is longer than the body it replaces' % fname)
                    src = src[:m.start()] + repl[:-2] + '\n' * pad + '}\n' + src[m.end():]
                open(os.path.join(d, 'module.c'), 'w').write(src)
            meta = json.load(open(os.path.join(d, 'module.c.meta.json')))
            # vtables the harness takes a vptr from (VT_DECLARE_VTABLE) must be defined by one of the linked TUs
            wanted = set(re.findall(r'^@(_ZTV\w+) = external global \[0 x i8\*\]', open(hll).read(), re.M))
            badg = [g for g in meta['extern_globals'] if g in wanted]
            if badg: raise BuildError('vtable symbols referenced but not defined (wrong mangled name or missing TU): ' + ', '.join(badg))
            meta['entries'] = entries; meta['overridden'] = overridden; meta['dir'] = d
            meta['build_s'] = round(time.time() - t0, 2)
            dem = sh([CXXFILT], timeout=60) if False else None
            p = subprocess.run([CXXFILT], input='\n'.join(meta['defined']).encode(), stdout=subprocess.PIPE)
            names = p.stdout.decode().split('\n')
            meta['ompl_functions'] = sorted(set(n for n in names if 'ompl::' in n and not n.startswith('harness_')))
            return meta
        return self.once(key, build)

    # ---- CBMC
    def cbmc_cmd(self, q, meta, witness, backend, trace=False, prop=None, extra=()):
        d = meta['dir']
        cmd = ['cbmc', os.path.join(d, 'module.c'), os.path.join(VT, 'stubs', 'base.c')]
        cmd += [os.path.join(VT, 'stubs', s) for s in q.stubs]
        cmd += ['--function', q.entry, '--unwind', str(q.unwind), '--drop-unused-functions', '--no-standard-checks',
                '--no-malloc-may-fail', '--json-ui', '--verbosity', '8', '--object-bits', '12']
        for us in q.unwindset: cmd += ['--unwindset', us]
        if q.silent_throw: cmd += ['-DVT_THROW_ENDS_PATH_SILENTLY']
        if q.new_cap: cmd += ['-DVT_NEW_CAP=%d' % q.new_cap]
        if witness:
            cmd += ['-DVT_WITNESS', '--no-unwinding-assertions']
        else:
            cmd += ['--unwinding-assertions']
            if q.checks == 'mem':
                cmd += ['--bounds-check', '--pointer-check', '--div-by-zero-check']
            if not trace: cmd += ['--slice-formula']
        if trace: cmd += ['--trace']
        if prop: cmd += ['--property', prop]
        if backend == 'cadical': cmd += ['--sat-solver', 'cadical']
        elif backend == 'kissat': cmd += ['--external-sat-solver', 'kissat']
        elif backend == 'minisat': pass
        else: raise ValueError(backend)
        cmd += list(q.extra_cbmc) + list(extra)
        return cmd

    @staticmethod
    def parse_cbmc(r):
        res = dict(status='error', props=[], vars=0, clauses=0, solver_s=0.0, vccs=0, vccs_remaining=0, bodyless=[],
                   secs=round(r['secs'], 2), note='')
        if r['timeout']:
            res['status'] = 'timeout'; return res
        try:
            js = json.loads(r['out'])
        except Exception:
            low = (r['out'][-2000:] + r['err'][-2000:])
            if 'bad_alloc' in low or 'Out of memory' in low or r['rc'] in (-9, -6, 134, 137):
                res['status'] = 'memout'
            res['note'] = low[-600:]
            return res
        for it in js:
            if 'messageText' in it:
                t = it['messageText']
                m = re.search(r'(\d+) variables, (\d+) clauses', t)
                if m: res['vars'] = max(res['vars'], int(m.group(1))); res['clauses'] = max(res['clauses'], int(m.group(2)))
                m = re.search(r'Runtime Solver: ([0-9.e+-]+)s', t)
                if m: res['solver_s'] += float(m.group(1))
                m = re.search(r'Generated (\d+) VCC\(s\), (\d+) remaining', t)
                if m: res['vccs'] = int(m.group(1)); res['vccs_remaining'] = int(m.group(2))
                m = re.search(r'no body for function (\S+)', t)
                if m: res['bodyless'].append(m.group(1).strip("'`\""))
                if it.get('messageType') == 'ERROR': res['note'] += t[:300] + ' | '
            if 'result' in it:
                for p in it['result']:
                    res['props'].append(p)
            if 'cProverStatus' in it:
                res['status'] = it['cProverStatus']
        res['solver_s'] = round(res['solver_s'], 3)
        if res['status'] == 'error' and 'out of memory' in res['note'].lower(): res['status'] = 'memout'
        return res

    def run_cbmc(self, q, meta, witness, trace=False, prop=None, timeout=None, extra=()):
        """race the configured back ends; first verdict wins"""
        backends = q.backends if not witness else q.backends[:1]
        if len(backends) == 1:
            r = sh(self.cbmc_cmd(q, meta, witness, backends[0], trace, prop, extra), timeout=timeout or q.timeout, mem_gb=q.mem_gb)
            res = self.parse_cbmc(r); res['backend'] = backends[0]
            return res
        results = {}
        done = threading.Event()
        procs = []
        def one(b):
            r = sh(self.cbmc_cmd(q, meta, witness, b, trace, prop, extra), timeout=timeout or q.timeout, mem_gb=q.mem_gb)
            res = self.parse_cbmc(r); res['backend'] = b
            results[b] = res
            if res['status'] in ('success', 'failure'): done.set()
        ths = [threading.Thread(target=one, args=(b,)) for b in backends]
        for t in ths: t.start()
        while any(t.is_alive() for t in ths) and not done.is_set():
            time.sleep(0.2)
        if done.is_set():
            # kill the losers: they are in their own process groups; find by cmdline is overkill -> let them time out
            # quickly by marking; simplest is pkill on our module path + backend flag
            for b in backends:
                if b not in results:
                    subprocess.run(['pkill', '-9', '-f', meta['dir'] + '/module.c .*--function %s .*' % q.entry], stderr=subprocess.DEVNULL)
        for t in ths: t.join()
        for b in backends:
            if b in results and results[b]['status'] in ('success', 'failure'): return results[b]
        return list(results.values())[0]

    # ---- native builds
    def native(self, q, meta, asan=False):
        d = meta['dir']
        key = ('native', d, q.entry, q.stubs, asan)
        def build():
            tag = q.entry + ('_asan' if asan else '')
            common = ['-DVT_ENTRY=' + q.entry, '-w', os.path.join(VT, 'stubs', 'native.c'), os.path.join(VT, 'stubs', 'base.c')] \
                     + [os.path.join(VT, 'stubs', s) for s in q.stubs]
            if q.silent_throw: common.append('-DVT_THROW_ENDS_PATH_SILENTLY')
            ll = os.path.join(d, 'prog_ll_' + tag); cc = os.path.join(d, 'prog_c_' + tag)
            weak = self.weak_externs(meta)
            san = ['-fsanitize=address', '-fno-omit-frame-pointer'] if asan else []
            r = sh([CLANG, '-O0', '-x', 'ir', os.path.join(d, 'module.ll'), '-x', 'c'] + common + san + [weak, '-lm', '-lpthread', '-o', ll], timeout=600)
            if r['rc'] != 0: raise BuildError('native ll link (%s): %s' % (q.entry, r['err'][-3000:]))
            if not asan:
                r = sh(['gcc', '-O0', '-fwrapv', '-fno-strict-aliasing', '-ffp-contract=off', os.path.join(d, 'module.c')] + common + [weak, '-lm', '-lpthread', '-o', cc], timeout=600)
                if r['rc'] != 0: raise BuildError('native c link (%s): %s' % (q.entry, r['err'][-3000:]))
            return ll, cc
        return self.once(key, build)

    LIBC = set('''malloc free calloc realloc memcpy memmove memset memcmp bcmp strlen strcmp abort sqrt fabs floor ceil fmod cos sin tan acos
        asin atan atan2 pow exp log log2 log10 fmin fmax round trunc copysign rint nearbyint hypot cbrt tgamma lgamma nanosleep
        __errno_location printf puts putchar fprintf snprintf sprintf fwrite fflush exit _exit pthread_mutex_lock pthread_mutex_unlock
        pthread_mutex_init pthread_mutex_destroy pthread_once __pthread_key_create pthread_create pthread_join pthread_self'''.split())

    def weak_externs(self, meta):
        """weak fatal definitions for externs that are referenced (vtables) but never modelled; calling one is reported"""
        def build():
            out = os.path.join(meta['dir'], 'weak_externs.c')
            with open(out, 'w') as f:
                f.write('void vt_native_fatal(const char *);\n')
                for n in meta['externs']:
                    if n in self.LIBC or ALLOWED_BODYLESS.match(n) or n.startswith('vt_'): continue
                    if not re.fullmatch(r'[A-Za-z_][A-Za-z0-9_]*', n): continue
                    f.write('__attribute__((weak)) void %s(void) { vt_native_fatal("unmodelled extern called: %s"); }\n' % (n, n))
                for n in meta['extern_globals']:
                    if not re.fullmatch(r'[A-Za-z_][A-Za-z0-9_]*', n) or n in ('vt_thrown',): continue
                    f.write('__attribute__((weak)) %schar %s[256];\n' % ('__thread ' if n in meta.get('extern_tls', []) else '', n))
            return out
        return self.once(('weak', meta['dir']), build)

    def validate_translation(self, q, meta, count=200):
        key = ('tv', meta['dir'], q.entry)
        def run():
            ll, cc = self.native(q, meta)
            a = sh([ll, 'random', str(self.seed), str(count)], timeout=300)
            b = sh([cc, 'random', str(self.seed), str(count)], timeout=300)
            runs = a['out'].count('RUN ')
            deep = len(re.findall(r'END returned', a['out']))
            asserts = a['out'].count('\nA ')
            ok = (a['out'] == b['out']) and not a['timeout'] and not b['timeout'] and runs == count
            rec = dict(entry=q.entry, streams=runs, reached_end=deep, assert_events=asserts, agree=ok)
            if not ok:
                la, lb = a['out'].split('\n'), b['out'].split('\n')
                for i in range(min(len(la), len(lb))):
                    if la[i] != lb[i]:
                        rec['first_diff'] = [la[max(0, i - 3):i + 2], lb[max(0, i - 3):i + 2]]; break
            return rec
        return self.once(key, run)

    def stub_sites(self):
        def build():
            out = {}
            d = os.path.join(VT, 'stubs')
            for fn in os.listdir(d):
                if not fn.endswith('.c'): continue
                for i, ln in enumerate(open(os.path.join(d, fn)), 1):
                    m = re.search(r'(\w+)\s*=\s*(nondet_\w+)\(\)', ln)
                    if m: out[(fn, i, m.group(1))] = m.group(2)
            return out
        return self.once(('stub_sites',), build)

    def extract_inputs(self, meta, trace):
        sites = {('module.c', s['line'], s['var']): s['fn'] for s in meta['nondet_sites']}
        sites.update(self.stub_sites())
        vals = []
        lastkey = None; lastdecl = False
        for st in trace:
            if st.get('stepType') != 'assignment':
                if st.get('stepType') in ('function-call', 'function-return'): lastkey = None
                continue
            loc = st.get('sourceLocation', {})
            try: ln = int(loc.get('line', '0'))
            except ValueError: continue
            k = (os.path.basename(loc.get('file', '')), ln, st.get('lhs'))
            if k in sites:
                v = st.get('value', {})
                b = v.get('binary')
                if b is None: continue
                if vals and lastkey == k and k[0] != 'module.c' and lastdecl:
                    vals[-1] = (sites[k], int(b, 2))      # declaration-with-initialiser shows up as two steps
                else:
                    vals.append((sites[k], int(b, 2)))
                lastkey = k; lastdecl = not lastdecl if False else True
        return vals

    def replay(self, q, meta, inputs, outdir, asan=False):
        os.makedirs(outdir, exist_ok=True)
        ll, _ = self.native(q, meta, asan=asan)
        f = os.path.join(outdir, 'inputs.txt')
        with open(f, 'w') as fh:
            for fn, v in inputs: fh.write('%s %x\n' % (fn, v))
        r = sh([ll, 'replay', f], timeout=120, env=dict(os.environ, ASAN_OPTIONS='detect_leaks=0'))
        open(os.path.join(outdir, 'replay.log'), 'w').write(r['out'] + '\n--- stderr ---\n' + r['err'])
        shutil.copy(ll, os.path.join(outdir, 'replay_bin'))
        shutil.copy(os.path.join(meta['dir'], 'module.ll'), os.path.join(outdir, 'module.ll'))
        shutil.copy(os.path.join(meta['dir'], 'module.c'), os.path.join(outdir, 'module.c'))
        with open(os.path.join(outdir, 'replay.sh'), 'w') as fh:
            fh.write('#!/bin/sh\n# replays the solver counterexample on the clang-native build of the analysed IR module\n'
                     'cd "$(dirname "$0")" && ASAN_OPTIONS=detect_leaks=0 ./replay_bin replay inputs.txt\n')
        os.chmod(os.path.join(outdir, 'replay.sh'), 0o755)
        return r

    # ---- one query end to end
    def run_query(self, q, replay_root):
        rec = dict(query=q.name, harness=q.harness, entry=q.entry, defines=q.defines, bound=q.bound, unwind=q.unwind,
                   stubs=['base.c'] + list(q.stubs), stdmodel=q.stdmodel, checks=q.checks, uninterpreted_float_ops=list(q.uf), operator_new_cap_bytes=q.new_cap, internal_callees_redirected_to_stubs=sorted(q.tu_redirect), preemption_points_in_functions_matching=q.yield_in, c_level_overrides=sorted(q.c_override), verdict='error',
                   failed=[], note=q.note)
        t0 = time.time()
        try:
            meta = self.module(q)
        except BuildError as e:
            rec['verdict'] = 'build-error'; rec['error'] = str(e)[-3000:]; rec['wall_s'] = round(time.time() - t0, 2)
            return rec
        rec['functions_encoded'] = meta['ompl_functions']
        rec['overridden_by_harness'] = meta['overridden']
        rec['ir_lines'] = meta['ir_lines']
        # witness twin first (cheap, also detects vacuity)
        w = self.run_cbmc(q, meta, witness=True, timeout=max(60, q.timeout // 2))
        covers = {p['description']: p['status'] for p in w['props'] if p.get('description', '').startswith('COVER ')}
        rec['witness'] = dict(status=w['status'], covers=covers, secs=w['secs'])
        reach_ok = bool(covers) and all(v == 'FAILURE' for v in covers.values())
        if w['status'] in ('timeout', 'memout'):
            rec['witness']['note'] = 'witness undecided'
            reach_ok = None
        r = self.run_cbmc(q, meta, witness=False)
        rec.update(backend=r.get('backend'), variables=r['vars'], clauses=r['clauses'], solver_s=r['solver_s'],
                   cbmc_s=r['secs'], vccs=r['vccs'], vccs_remaining=r['vccs_remaining'])
        bad_bodyless = [b for b in set(r['bodyless']) if not ALLOWED_BODYLESS.match(b) and b not in q.allow_bodyless]
        if bad_bodyless:
            rec['verdict'] = 'error'; rec['error'] = 'unmodelled extern functions: ' + ', '.join(sorted(bad_bodyless))
            rec['wall_s'] = round(time.time() - t0, 2); return rec
        nobody = [p['property'] for p in r['props'] if '.no-body.' in p['property'] and p['status'] == 'FAILURE']
        if nobody:
            rec['verdict'] = 'error'; rec['error'] = 'unmodelled extern functions are reachable: ' + ', '.join(sorted(set(x.split('.no-body.')[-1] for x in nobody)))
            rec['wall_s'] = round(time.time() - t0, 2); return rec
        if r['status'] in ('timeout', 'memout'):
            rec['verdict'] = 'undecided'; rec['note'] += ' ' + r['status']
        elif r['status'] == 'success':
            if reach_ok is False:
                rec['verdict'] = 'vacuous'; rec['error'] = 'witness twin not reachable: %r' % covers
            elif reach_ok is None:
                rec['verdict'] = 'undecided'; rec['note'] += ' witness undecided'
            else:
                rec['verdict'] = 'holds'
            rec['properties_checked'] = len(r['props'])
        elif r['status'] == 'failure':
            fails = [p for p in r['props'] if p['status'] == 'FAILURE']
            rec['properties_checked'] = len(r['props'])
            bound_fail = [p for p in fails if '.unwind.' in p['property'] or 'capacity exceeded' in p.get('description', '')
                          or 'recursion' in p['property']]
            real = [p for p in fails if p not in bound_fail]
            if bound_fail and not real:
                rec['verdict'] = 'bound-too-small'; rec['error'] = '; '.join(p['property'] + ':' + p.get('description', '') for p in bound_fail[:5])
            else:
                rec['verdict'] = 'candidate'
                rec['failed'] = [dict(property=p['property'], description=p.get('description', '')) for p in real]
                if bound_fail: rec['note'] += ' (also bound failures: %s)' % ','.join(p['property'] for p in bound_fail[:3])
                self.confirm(q, meta, rec, real, replay_root)
        else:
            rec['verdict'] = 'error'; rec['error'] = (r.get('note') or '')[-1500:]
        if rec['verdict'] == 'spurious' and q.uf:
            # the abstract (uninterpreted float ops) query failed and its counterexample does not replay: search for a real
            # counterexample with exact float semantics (finding one is much cheaper than proving absence)
            import copy as _copy
            q2 = _copy.copy(q); q2.uf = (); q2.validate = False
            try:
                meta2 = self.module(q2)
                r2 = self.run_cbmc(q2, meta2, witness=False, timeout=q.timeout)
                rec['exact_fallback'] = dict(status=r2['status'], secs=r2['secs'])
                if r2['status'] == 'failure':
                    real2 = [p for p in r2['props'] if p['status'] == 'FAILURE' and '.unwind.' not in p['property']]
                    rec2 = dict(confirmed=[], spurious=[], unconfirmed=[])
                    self.confirm(q2, meta2, rec2, real2, replay_root)
                    if rec2.get('confirmed'):
                        rec['verdict'] = 'violation'; rec['confirmed'] = rec2['confirmed']; rec['note'] += ' (counterexample found by the exact-arithmetic fallback query)'
                elif r2['status'] == 'success':
                    rec['verdict'] = 'holds'; rec['note'] += ' (abstract query failed spuriously; exact-arithmetic query proved the assertions)'
            except BuildError as e:
                rec['exact_fallback'] = dict(status='build-error')
        if rec['verdict'] == 'spurious':
            try:
                ctext = open(os.path.join(meta['dir'], 'module.c')).read()
            except OSError:
                ctext = ''
            abstracted = bool(q.uf) or len(re.findall(r'\bvt_sqrt\(', ctext)) > 1 or 'vt_fmod(' in ctext
            if abstracted and all('desynchronised' not in (x.get('why') or '') for x in rec.get('spurious', [])):
                # a counterexample that exists only under a contract stub / uninterpreted float operation: the abstraction is too
                # weak to prove the assertion - inconclusive, not an encoding error and not a violation
                rec['verdict'] = 'undecided'; rec['note'] += ' abstraction too weak: counterexample not reproducible with the real sqrt/fmod/float operations'
        if q.validate and rec['verdict'] in ('holds', 'candidate', 'violation', 'known', 'spurious'):
            try:
                rec['translator_validation'] = self.validate_translation(q, meta)
                if not rec['translator_validation']['agree'] and rec['verdict'] == 'holds':
                    rec['verdict'] = 'error'; rec['error'] = 'translator validation disagreement'
            except BuildError as e:
                rec['verdict'] = 'error'; rec['error'] = 'native build: ' + str(e)[-2000:]
        rec['wall_s'] = round(time.time() - t0, 2)
        return rec

    def confirm(self, q, meta, rec, real, replay_root):
        """re-run with --trace for each distinct failed assertion, replay natively"""
        confirmed, spurious, unconf = [], [], []
        seen_desc = set()
        for p in real[:6]:
            desc = p.get('description', '')
            if desc in seen_desc: continue
            seen_desc.add(desc)
            tr = self.run_cbmc(q, meta, witness=False, trace=True, prop=p['property'], timeout=q.timeout * 2)
            tp = [x for x in tr['props'] if x['property'] == p['property'] and x['status'] == 'FAILURE' and 'trace' in x]
            if not tp:
                unconf.append(dict(property=p['property'], description=desc, why='no trace (%s)' % tr['status'])); continue
            inputs = self.extract_inputs(meta, tp[0]['trace'])
            is_mem = not re.search(r'\.assertion\.\d+$', p['property'])
            outdir = os.path.join(replay_root, re.sub(r'\W+', '_', q.name) + '__' + re.sub(r'\W+', '_', p['property']))
            try:
                rr = self.replay(q, meta, inputs, outdir, asan=is_mem)
            except BuildError as e:
                unconf.append(dict(property=p['property'], description=desc, why='replay build: ' + str(e)[-500:])); continue
            out = rr['out']
            item = dict(property=p['property'], description=desc, replay=outdir,
                        inputs=[(fn, hex(v)) for fn, v in inputs[:40]])
            reproduced = (not is_mem) and ('STUB-DIVERGENCE' not in out) and ('DESYNC' not in out) and (
                ('\nA 0 ' + desc) in ('\n' + out) or ((desc in ('exception thrown', 'pure virtual call', 'std::terminate') or desc.startswith('throw ')) and ('FATAL ' + desc) in out))
            if not is_mem and not reproduced:
                # second attempt: restrict contract stubs (fmod, sqrt) to the region where they pin the real value exactly
                tr2 = self.run_cbmc(q, meta, witness=False, trace=True, prop=p['property'], timeout=q.timeout * 2, extra=('-DVT_STUB_EXACT_REGION',))
                tp2 = [x for x in tr2['props'] if x['property'] == p['property'] and x['status'] == 'FAILURE' and 'trace' in x]
                ok2 = False
                if tp2:
                    inputs2 = self.extract_inputs(meta, tp2[0]['trace'])
                    rr2 = self.replay(q, meta, inputs2, outdir, asan=is_mem)
                    if 'STUB-DIVERGENCE' not in rr2['out'] and 'DESYNC' not in rr2['out'] and ('\nA 0 ' + desc) in ('\n' + rr2['out']):
                        item['inputs'] = [(fn, hex(v)) for fn, v in inputs2[:40]]; item['note'] = 'found in the exact region of the contract stubs'
                        confirmed.append(item); ok2 = True
                if not ok2:
                    item['why'] = ('counterexample relies on a stub value the real function does not return' if 'STUB-DIVERGENCE' in out
                                   else 'replay desynchronised' if 'DESYNC' in out else 'assertion did not fail in native replay (also not within the exact region of the contract stubs)')
                    spurious.append(item)
            elif 'DESYNC' in out:
                item['why'] = 'replay desynchronised'; spurious.append(item)
            elif is_mem:
                if 'AddressSanitizer' in rr['err'] or rr['rc'] not in (0,):
                    confirmed.append(item)
                else:
                    item['why'] = 'memory-safety failure not reproduced under ASan'; unconf.append(item)
            elif ('\nA 0 ' + desc) in ('\n' + out) or (desc in ('exception thrown', 'pure virtual call', 'std::terminate') or desc.startswith('throw ')) and ('FATAL ' + desc) in out:
                confirmed.append(item)
            else:
                item['why'] = 'assertion did not fail in native replay'; spurious.append(item)
        rec['confirmed'] = confirmed; rec['spurious'] = spurious; rec['unconfirmed'] = unconf
        if confirmed: rec['verdict'] = 'violation'
        elif spurious: rec['verdict'] = 'spurious'
        else: rec['verdict'] = 'unconfirmed'
