// SO(2): distance laws (C06), interpolation (C07), bounds and samplers (C08), state-level round trips (C09).
// The space object is a zeroed buffer: none of the methods under test reads a member; calls are non-virtual.
#include "vt.h"
#include "ompl/base/spaces/SO2StateSpace.h"
#include <cstring>
#define VT_DECLARE_VTABLE(ident, mangled) extern "C" void *vt_vtbl_##ident[] asm(mangled);
#include <cmath>
#include <cstring>
namespace ob = ompl::base;
typedef ob::SO2StateSpace S;
alignas(16) static char sp_buf[sizeof(S)];
static const double PI = 3.14159265358979323846;
static S *space() { return reinterpret_cast<S *>(sp_buf); }
static double inb() { double v = nondet_double(); VT_ASSUME(v >= -PI && v < PI); return v; }

extern "C" void harness_so2_distance()
{
    S *sp = space();
    S::StateType a, b;
    a.value = inb(); b.value = inb();
    double ab = sp->S::distance(&a, &b), ba = sp->S::distance(&b, &a);
    VT_CHECK(ab >= 0.0, "distance is non-negative");
    VT_CHECK(ab == ba, "distance is symmetric");
    VT_CHECK(ab <= sp->S::getMaximumExtent(), "distance never exceeds the maximum extent");
    VT_CHECK(sp->S::distance(&a, &a) == 0.0, "distance from a state to itself is zero");
#ifndef VT_EXCL_KF_SO2_SEAM_ZERO
    if (!sp->S::equalStates(&a, &b)) VT_CHECK(ab > 0.0, "distance is positive between states that are not equal");
#else
    if (!sp->S::equalStates(&a, &b) && std::fabs(a.value - b.value) < 2.0 * PI) VT_CHECK(ab > 0.0, "distance is positive between states that are not equal");
#endif
    VT_CHECK(sp->S::equalStates(&a, &a), "a state equals itself");
    vt_cover("so2 distance end");
}
extern "C" void harness_so2_triangle()
{
    S *sp = space();
    S::StateType a, b, c;
    a.value = inb(); b.value = inb(); c.value = inb();
    double ab = sp->S::distance(&a, &b), bc = sp->S::distance(&b, &c), ac = sp->S::distance(&a, &c);
    VT_CHECK(ac <= ab + bc + 1e-9, "triangle inequality");
    vt_cover("so2 triangle end");
}
extern "C" void harness_so2_interp_bounds()
{
    S *sp = space();
    S::StateType a, b, c;
    a.value = inb(); b.value = inb();
    double t = vt_double_in(0.0, 1.0);
    c.value = 99.0;
    sp->S::interpolate(&a, &b, t, &c);
#ifdef VT_EXCL_KF_SO2_INTERP_PI
    VT_ASSUME(c.value != PI);
#endif
    VT_CHECK(sp->S::satisfiesBounds(&c), "interpolated state is within bounds");
    vt_cover("so2 interp bounds end");
}
extern "C" void harness_so2_interp_alias()
{
    S *sp = space();
    S::StateType a, b, c;
    a.value = inb(); b.value = inb();
    double t = vt_double_in(0.0, 1.0);
    c.value = 99.0;
    sp->S::interpolate(&a, &b, t, &c);
    S::StateType x;
#if ALIAS == 1
    x.value = a.value;
    sp->S::interpolate(&x, &b, t, &x);
    VT_CHECK(vt_same_bits(x.value, c.value), "same result when the output aliases the first input");
#else
    x.value = b.value;
    sp->S::interpolate(&a, &x, t, &x);
    VT_CHECK(vt_same_bits(x.value, c.value), "same result when the output aliases the second input");
#endif
    vt_cover("so2 interp alias end");
}
extern "C" void harness_so2_t0()
{
    S *sp = space();
    S::StateType a, b, c;
    a.value = inb(); b.value = inb();
    sp->S::interpolate(&a, &b, 0.0, &c);
    VT_CHECK(c.value == a.value, "t=0 yields the first state");
    vt_cover("so2 t0 end");
}
extern "C" void harness_so2_t1()
{
    S *sp = space();
    S::StateType a, b, c;
    a.value = inb(); b.value = inb();
    sp->S::interpolate(&a, &b, 1.0, &c);
    VT_CHECK(sp->S::distance(&c, &b) <= 8e-15, "t=1 yields the second state (within 8e-15)");
    vt_cover("so2 t1 end");
}
extern "C" void harness_so2_enforce()
{
    S *sp = space();
    S::StateType a;
    double v = vt_finite_double();
    a.value = v;
    bool was = sp->S::satisfiesBounds(&a);
    sp->S::enforceBounds(&a);
    VT_CHECK(sp->S::satisfiesBounds(&a), "enforceBounds yields a state within bounds");
    VT_CHECK(!was || a.value == v, "an in-bounds state is left unchanged");
    double w = a.value;
    sp->S::enforceBounds(&a);
    VT_CHECK(a.value == w, "enforceBounds is idempotent");
    if (!was) vt_cover("so2 enforce out of bounds input");
    vt_cover("so2 enforce end");
}
VT_DECLARE_VTABLE(SO2, "_ZTVN4ompl4base13SO2StateSpaceE")
static ob::SO2StateSampler *sampler()
{
    alignas(16) static char sm_buf[sizeof(ob::SO2StateSampler)];
    auto *sm = reinterpret_cast<ob::SO2StateSampler *>(sm_buf);   // constructor skipped (seeds an engine the stub never reads)
    sm->space_ = space();
    *(void ***)sp_buf = &vt_vtbl_SO2[2];   // enforceBounds is reached through space_-> (virtual)
    return sm;
}
extern "C" void harness_so2_sample_uniform()
{
    S::StateType s;
    s.value = 99.0;
    sampler()->ob::SO2StateSampler::sampleUniform(&s);
    VT_CHECK(space()->S::satisfiesBounds(&s), "uniform sample within bounds");
    vt_cover("so2 uniform end");
}
extern "C" void harness_so2_sample_near()
{
    S::StateType s, near;
    near.value = inb();
    s.value = 99.0;
    double d = vt_double_in(0.0, 1e6);
    sampler()->ob::SO2StateSampler::sampleUniformNear(&s, &near, d);
    VT_CHECK(space()->S::satisfiesBounds(&s), "near sample within bounds");
    vt_cover("so2 near end");
}
extern "C" void harness_so2_sample_gaussian()
{
    S::StateType s, near;
    near.value = inb();
    s.value = 99.0;
    double d = vt_double_in(0.0, 1e6);
    sampler()->ob::SO2StateSampler::sampleGaussian(&s, &near, d);
    VT_CHECK(space()->S::satisfiesBounds(&s), "gaussian sample within bounds");
    vt_cover("so2 gaussian end");
}
extern "C" void harness_so2_roundtrip()
{
    S *sp = space();
    S::StateType a, b, c;
    unsigned long bits = nondet_ulong();
    std::memcpy(&a.value, &bits, 8);
    b.value = 1.0; c.value = 2.0;
    sp->S::copyState(&b, &a);
    VT_CHECK(std::memcmp(&a.value, &b.value, 8) == 0, "copyState copies the state bit for bit");
    unsigned char buf[16];
    VT_CHECK(sp->S::getSerializationLength() == 8, "serialization length");
    buf[8] = 0x5a;
    sp->S::serialize(buf, &a);
    sp->S::deserialize(&c, buf);
    VT_CHECK(std::memcmp(&a.value, &c.value, 8) == 0, "serialize then deserialize reproduces the state bit for bit");
    VT_CHECK(buf[8] == 0x5a, "serialize writes only its own length");
    vt_cover("so2 roundtrip end");
}
