// C04: solution ranking (PlannerSolution::operator<), objective cost kernels, path cost/length folds.
#include "vt_ompl.h"
#include "ompl/base/ProblemDefinition.h"
#include "ompl/base/OptimizationObjective.h"
#include "ompl/base/objectives/PathLengthOptimizationObjective.h"
#include "ompl/base/objectives/MaximizeMinClearanceObjective.h"
#include "ompl/base/objectives/MinimaxObjective.h"
#include "ompl/geometric/PathGeometric.h"
VT_CUT_STATESPACE_CTOR
namespace og = ompl::geometric;
#ifndef OPT
#define OPT 1       /* 0: no objective (rank by length), 1: minimising objective, 2: MaximizeMinClearance (larger is better) */
#endif
VT_DECLARE_VTABLE(PL, "_ZTVN4ompl4base31PathLengthOptimizationObjectiveE")
VT_DECLARE_VTABLE(MMC, "_ZTVN4ompl4base29MaximizeMinClearanceObjectiveE")
alignas(16) static char pl_buf[sizeof(ob::PathLengthOptimizationObjective)];
alignas(16) static char mmc_buf[sizeof(ob::MaximizeMinClearanceObjective)];
static ob::OptimizationObjective *objective()
{
#if OPT == 2
    return VT_RAW_OBJECT(ob::MaximizeMinClearanceObjective, MMC, mmc_buf);
#else
    return VT_RAW_OBJECT(ob::PathLengthOptimizationObjective, PL, pl_buf);
#endif
}
static bool better(double a, double b) { return OPT == 2 ? a > b : a < b; }
static double anynum() { double v = nondet_double(); VT_ASSUME(v == v); return v; }   // any double except NaN (incl. +-inf)
alignas(16) static char sol_buf[3][sizeof(ob::PlannerSolution)];
static ob::PlannerSolution *mksol(int i, ob::OptimizationObjective *o)
{
    std::memset(sol_buf[i], 0, sizeof sol_buf[i]);
    auto *s = reinterpret_cast<ob::PlannerSolution *>(sol_buf[i]);
    s->approximate_ = vt_nondet_bool();
    s->difference_ = anynum();
    s->optimized_ = vt_nondet_bool();
    s->cost_ = ob::Cost(anynum());
    s->length_ = anynum();
    if (OPT != 0) vt::set_raw(s->opt_, o);
    return s;
}
// reference ranking key, written from the property text: exact before approximate, approximate by smaller goal
// difference, objective-satisfying first, then better cost (length when no objective is attached)
static bool ref_less(const ob::PlannerSolution *a, const ob::PlannerSolution *b)
{
    if (a->approximate_ != b->approximate_) return !a->approximate_;
    if (a->approximate_) return a->difference_ < b->difference_;
    if (a->optimized_ != b->optimized_) return a->optimized_;
    return OPT == 0 ? a->length_ < b->length_ : better(a->cost_.value(), b->cost_.value());
}
extern "C" void harness_ranking()
{
    ob::OptimizationObjective *o = objective();
    ob::PlannerSolution *a = mksol(0, o), *b = mksol(1, o), *c = mksol(2, o);
    bool ab = *a < *b, ba = *b < *a, bc = *b < *c, ac = *a < *c, cb = *c < *b, ca = *c < *a;
    VT_CHECK(ab == ref_less(a, b), "ranking: exact < approximate, smaller difference, satisfying first, then better cost");
    VT_CHECK(!(*a < *a), "ranking is irreflexive");
    VT_CHECK(!(ab && ba), "ranking is asymmetric");
    VT_CHECK(!(ab && bc) || ac, "ranking is transitive");
    VT_CHECK(!(!ab && !ba && !bc && !cb) || (!ac && !ca), "incomparability is transitive (strict weak order, as std::sort requires)");
    if (ab) vt_cover("a ranked before b");
    vt_cover("ranking end");
}
// objective kernels
extern "C" void harness_objective()
{
    ob::OptimizationObjective *o = objective();
    double thr = anynum(), x = anynum(), y = anynum();
    o->threshold_ = ob::Cost(thr);
    VT_CHECK(o->isCostBetterThan(ob::Cost(x), ob::Cost(y)) == better(x, y), "isCostBetterThan is the objective's strict order");
    VT_CHECK(o->isSatisfied(ob::Cost(x)) == better(x, thr), "isSatisfied exactly when the cost is better than the threshold");
    VT_CHECK(o->isCostEquivalentTo(ob::Cost(x), ob::Cost(y)) == (!better(x, y) && !better(y, x)), "equivalence = neither is better");
    double bcost = o->betterCost(ob::Cost(x), ob::Cost(y)).value();
    VT_CHECK(vt_same_bits(bcost, better(x, y) ? x : y), "betterCost returns the better of the two");
    VT_CHECK(!better(x, o->identityCost().value()) || OPT == 1, "identity cost is the best cost (maximising objectives)");
    VT_CHECK(!o->isCostBetterThan(o->infiniteCost(), ob::Cost(x)), "infinite cost is never better than any cost");
    double comb = o->combineCosts(ob::Cost(x), ob::Cost(y)).value();
#if OPT == 2
    VT_CHECK(vt_same_bits(comb, better(x, y) ? y : x), "max-min clearance combines to the worse (smaller) clearance");
#else
    VT_CHECK(vt_same_bits(comb, x + y), "additive objectives combine by summing");
#endif
    VT_CHECK(vt_same_bits(o->combineCosts(o->identityCost(), ob::Cost(x)).value(), x) || x == 0.0, "combining with the identity cost changes nothing");
    vt_cover("objective end");
}
// ---- path cost / length folds against stub objective and stub space
#ifndef NS
#define NS 3
#endif
struct TState : ob::State { int id; };
static double g_dist[NS + 1][NS + 1], g_mc[NS + 1][NS + 1], g_init[NS + 1], g_term[NS + 1];
struct StubSpace : ob::StateSpace
{
    unsigned int getDimension() const override { return 1; }
    double getMaximumExtent() const override { return 1; }
    double getMeasure() const override { return 1; }
    void enforceBounds(ob::State *) const override {}
    bool satisfiesBounds(const ob::State *) const override { return true; }
    void copyState(ob::State *d, const ob::State *s) const override { static_cast<TState *>(d)->id = static_cast<const TState *>(s)->id; }
    double distance(const ob::State *a, const ob::State *b) const override { return g_dist[static_cast<const TState *>(a)->id][static_cast<const TState *>(b)->id]; }
    bool equalStates(const ob::State *, const ob::State *) const override { return false; }
    void interpolate(const ob::State *, const ob::State *, double, ob::State *) const override {}
    ob::StateSamplerPtr allocDefaultStateSampler() const override { return ob::StateSamplerPtr(); }
    ob::State *allocState() const override { return nullptr; }
    void freeState(ob::State *) const override {}
};
struct StubObj : ob::OptimizationObjective
{
    StubObj() : ob::OptimizationObjective(ob::SpaceInformationPtr()) {}
    ob::Cost stateCost(const ob::State *) const override { return ob::Cost(0); }
    ob::Cost motionCost(const ob::State *a, const ob::State *b) const override { return ob::Cost(g_mc[static_cast<const TState *>(a)->id][static_cast<const TState *>(b)->id]); }
    ob::Cost initialCost(const ob::State *a) const override { return ob::Cost(g_init[static_cast<const TState *>(a)->id]); }
    ob::Cost terminalCost(const ob::State *a) const override { return ob::Cost(g_term[static_cast<const TState *>(a)->id]); }
};
VT_DECLARE_VTABLE(StubObj, "_ZTV7StubObj")
extern "C" void vt_force_vtable() { StubObj *p = new StubObj(); (void)p; }
alignas(16) static char sp_buf[sizeof(StubSpace)], so_buf[sizeof(StubObj)], path_buf[sizeof(og::PathGeometric)];
static vt::SIBuf g_si;
static TState g_st[NS + 1];
extern "C" void harness_path_cost()
{
    auto *sp = new (sp_buf) StubSpace();
    g_si.init(sp, nullptr);
    StubObj *so = VT_RAW_OBJECT(StubObj, StubObj, so_buf);
    ob::OptimizationObjectivePtr optp;
    vt::set_raw(optp, (ob::OptimizationObjective *)so);
    std::memset(path_buf, 0, sizeof path_buf);
    auto *path = reinterpret_cast<og::PathGeometric *>(path_buf);
    vt::set_raw(path->si_, g_si.si());
    new (&path->states_) std::vector<ob::State *>();
    path->states_.reserve(NS + 1);
    for (int i = 0; i < NS; ++i)
    {
        g_st[i].id = i;
        g_init[i] = anynum(); g_term[i] = anynum();
        for (int j = 0; j < NS; ++j) { g_mc[i][j] = anynum(); g_dist[i][j] = anynum(); }
        path->states_.push_back(&g_st[i]);
    }
    double c = path->og::PathGeometric::cost(optp).value();
    double L = path->og::PathGeometric::length();
#if NS == 0
    VT_CHECK(c == 0.0 && L == 0.0, "empty path has identity cost and zero length");
#else
    double rc = g_init[0], rl = 0.0;
    for (int i = 1; i < NS; ++i) { rc = rc + g_mc[i - 1][i]; rl = rl + g_dist[i - 1][i]; }
    rc = rc + g_term[NS - 1];
    VT_CHECK(vt_same_bits(c, rc), "path cost = initial cost + every consecutive motion cost, in order, + terminal cost");
    VT_CHECK(vt_same_bits(L, rl), "path length = sum of the consecutive distances, in order");
#endif
    void *z = nullptr;
    std::memcpy((void *)&optp, &z, sizeof z);
    vt_cover("path cost end");
}
// path length is never below the straight-line distance when the space's distance obeys the triangle law
extern "C" void harness_admissible()
{
    auto *sp = new (sp_buf) StubSpace();
    g_si.init(sp, nullptr);
    std::memset(path_buf, 0, sizeof path_buf);
    auto *path = reinterpret_cast<og::PathGeometric *>(path_buf);
    vt::set_raw(path->si_, g_si.si());
    new (&path->states_) std::vector<ob::State *>();
    path->states_.reserve(NS + 1);
    for (int i = 0; i < NS; ++i)
    {
        g_st[i].id = i;
        for (int j = 0; j < NS; ++j) g_dist[i][j] = (double)(nondet_uchar() & 15);   // integer-valued metric: sums are exact
        path->states_.push_back(&g_st[i]);
    }
    for (int i = 0; i < NS; ++i)
        for (int j = 0; j < NS; ++j)
            for (int k = 0; k < NS; ++k) VT_ASSUME(g_dist[i][k] <= g_dist[i][j] + g_dist[j][k]);
    double L = path->og::PathGeometric::length();
    VT_CHECK(L >= g_dist[0][NS - 1], "path length is never below the straight-line (admissible) bound");
    vt_cover("admissible end");
}
