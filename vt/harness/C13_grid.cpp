// C13: Grid / GridN / GridB against a ghost model over a fixed universe of cell coordinates.  Pass 1 visits the universe
// cells in order and, per the concrete case split ADDMASK/ABMASK, skips, creates+adds, or creates and abandons each one
// (createCell, remove, destroyCell without add); pass 2 removes an ARBITRARY (symbolic) subset again, so every subset of
// the added cells is reached.  Cell data are symbolic ints.
#include <unordered_map>
#include <vector>
#include <functional>
#include "vt.h"
#include "ompl/datastructures/GridB.h"

#ifndef KIND
#define KIND 2          /* 0 = Grid, 1 = GridN, 2 = GridB */
#endif
#ifndef SHAPE
#define SHAPE 0
#endif
// universes
#if SHAPE == 0          /* 1-D line of 4 */
#define DIM 1
#define U 4
static const int UC[U][3] = {{0}, {1}, {2}, {3}};
#elif SHAPE == 1        /* 2x2 block */
#define DIM 2
#define U 4
static const int UC[U][3] = {{0, 0}, {0, 1}, {1, 0}, {1, 1}};
#elif SHAPE == 2        /* 2x3 block */
#define DIM 2
#define U 6
static const int UC[U][3] = {{0, 0}, {0, 1}, {0, 2}, {1, 0}, {1, 1}, {1, 2}};
#elif SHAPE == 3        /* plus shape + detached cell */
#define DIM 2
#define U 6
static const int UC[U][3] = {{0, 0}, {0, 1}, {0, -1}, {1, 0}, {-1, 0}, {3, 3}};
#elif SHAPE == 4        /* 1-D line of 5 with negative coordinates */
#define DIM 1
#define U 5
static const int UC[U][3] = {{-2}, {-1}, {0}, {1}, {2}};
#elif SHAPE == 5        /* 2x2x2 cube */
#define DIM 3
#define U 8
static const int UC[U][3] = {{0, 0, 0}, {0, 0, 1}, {0, 1, 0}, {0, 1, 1}, {1, 0, 0}, {1, 0, 1}, {1, 1, 0}, {1, 1, 1}};
#endif
#define UFULL ((1 << U) - 1)
#ifndef LIMIT
#define LIMIT 0         /* 0: default interior limit 2*DIM */
#endif
#ifndef BOUNDS
#define BOUNDS 0        /* 1: grid bounds = bounding box of the universe */
#endif
#ifndef ADDMASK
#define ADDMASK ((1 << U) - 1)
#endif
#ifndef ABMASK
#define ABMASK 0
#endif
#ifndef RM2
#define RM2 -1
#endif
#ifndef RM3
#define RM3 -1
#endif

struct Greater { bool operator()(int a, int b) const { return a > b; } };
#if KIND == 0
typedef ompl::Grid<int> G;
#elif KIND == 1
typedef ompl::GridN<int> G;
#else
typedef ompl::GridB<int, std::less<int>, Greater> G;   // different orders for the external and the internal queue
#endif
typedef G::Coord Coord;

static bool adj(int i, int j)
{
    int diff = 0;
    for (int d = 0; d < DIM; ++d)
    {
        int x = UC[i][d] - UC[j][d];
        if (x < 0) x = -x;
        diff += x;
    }
    return diff == 1;
}
static Coord mk(int i)
{
    Coord c(DIM);
    for (int d = 0; d < DIM; ++d) c[d] = UC[i][d];
    return c;
}
static int lowB(int d) { int m = UC[0][d]; for (int i = 1; i < U; ++i) if (UC[i][d] < m) m = UC[i][d]; return m; }
static int upB(int d) { int m = UC[0][d]; for (int i = 1; i < U; ++i) if (UC[i][d] > m) m = UC[i][d]; return m; }

extern "C" void harness_grid()
{
    // never destroyed: ~Grid() -> freeMemory() deletes cells through symbolic pointers (virtual destructors), which explodes;
    // a stack object (not a heap one) keeps CBMC field-sensitive on the grid's own members (vptr, event callback, limits)
    union Holder { G g; Holder() : g(DIM) {} ~Holder() {} } holder;
    G &g = holder.g;
    int blo[DIM], bup[DIM];
    unsigned limit = 2 * DIM;
#if KIND >= 1
#if BOUNDS == 2
    {   // symbolic bounds around the universe's bounding box (GridN only: no pointer effects)
        Coord lo(DIM), up(DIM);
        for (int d = 0; d < DIM; ++d)
        {
            blo[d] = lowB(d) - (int)(nondet_uchar() & 1); bup[d] = upB(d) + (int)(nondet_uchar() & 1);
            lo[d] = blo[d]; up[d] = bup[d];
        }
        g.setBounds(lo, up);
    }
#elif BOUNDS
    {
        Coord lo(DIM), up(DIM);
        for (int d = 0; d < DIM; ++d) { blo[d] = lowB(d); bup[d] = upB(d); lo[d] = blo[d]; up[d] = bup[d]; }
        g.setBounds(lo, up);
    }
#endif
#if LIMIT == 99
    limit = 1 + (nondet_uchar() & 3);          // symbolic interior limit in [1,4] (GridN only)
    g.setInteriorCellNeighborLimit(limit);
#elif LIMIT
    limit = LIMIT;
    g.setInteriorCellNeighborLimit(LIMIT);
#endif
#endif
    G::Cell *cell[U];
    bool present[U];
    int data[U];
    for (int i = 0; i < U; ++i) { cell[i] = nullptr; present[i] = false; }
    // pass 1 (concrete per query)
    for (int i = 0; i < U; ++i)
    {
        bool doAdd = (ADDMASK >> i) & 1, doAbandon = (ABMASK >> i) & 1;
        if (!doAdd && !doAbandon) continue;
        Coord c = mk(i);
        auto *cl = static_cast<G::Cell *>(g.createCell(c));
#ifdef SYMCELL
        // GridB: only the data of cell SYMCELL is symbolic, the others carry fixed distinct keys given by the permutation
        // DATAPERM (4 bits per cell) - a fully symbolic key vector makes every heap position symbolic (undecided in 900 s)
        data[i] = (i == SYMCELL) ? nondet_int() : (int)(((unsigned long)DATAPERM >> (4 * i)) & 15) * 10;
#else
        data[i] = nondet_int();
#endif
        cl->data = data[i];
        if (doAbandon)
        {   // abandon a created cell: documented as remove() + destroyCell()
            bool r = g.remove(cl);
            VT_CHECK(!r, "remove of a cell that was never added returns false");
            g.destroyCell(cl);
            continue;
        }
        g.add(cl);
        cell[i] = cl; present[i] = true;
    }
    // pass 2: remove a subset again
#if defined(RM1)
    // concrete removal sequence (case split): RM1, then RM2, then RM3 (negative = none)
    static const int rmseq[3] = {RM1, RM2, RM3};
    for (int r_ = 0; r_ < 3; ++r_)
        if (rmseq[r_] >= 0 && present[rmseq[r_]])
        {
            int i = rmseq[r_];
#else
    for (int i = 0; i < U; ++i)
        if (present[i] && vt_nondet_bool())
        {
#endif
            bool r = g.remove(cell[i]);
            VT_CHECK(r, "remove of a present cell returns true");
            // (the removed cell is not destroyed here: `delete` through the virtual destructor under a symbolic guard makes
            //  CBMC consider every void(T*) virtual, incl. ~Grid()/clear(), as callee - see DESIGN lessons)
            present[i] = false;
        }
    // ---- checks against the ghost model
    unsigned n = 0;
    for (int i = 0; i < U; ++i) n += present[i] ? 1 : 0;
    VT_CHECK(g.size() == n, "size equals the number of present cells");
    VT_CHECK(g.empty() == (n == 0), "empty agrees with size");
#ifdef PROBE
    for (int i = PROBE; i <= PROBE; ++i)      // lookups/neighbour lists at one universe coordinate per query
#else
    for (int i = 0; i < U; ++i)
#endif
    {
        Coord c = mk(i);
        VT_CHECK(g.has(c) == present[i], "lookup finds exactly the cells present");
        VT_CHECK(g.getCell(c) == (present[i] ? cell[i] : (G::Cell *)nullptr), "getCell returns the cell stored at the coordinate");
        G::CellArray nb;
        g.neighbors(c, nb);
        unsigned want = 0;
        for (int j = 0; j < U; ++j) want += (present[j] && adj(i, j)) ? 1 : 0;
        VT_CHECK(nb.size() == want, "neighbour list has exactly the present cells at distance one in a single dimension");
        for (unsigned k = 0; k < 2 * DIM; ++k)       // concrete loop bounds: nb.size() <= want <= 2*DIM was just asserted
            if (k < nb.size())
            {
                bool ok = false;
                for (int j = 0; j < U; ++j) if (present[j] && adj(i, j) && nb[k] == cell[j]) ok = true;
                VT_CHECK(ok, "every listed neighbour is a present adjacent cell");
                for (unsigned k2 = k + 1; k2 < 2 * DIM; ++k2) if (k2 < nb.size()) VT_CHECK(nb[k] != nb[k2], "no neighbour listed twice");
            }
    }
    {
        Coord far(DIM);
        for (int d = 0; d < DIM; ++d) far[d] = 1000 + d;
        VT_CHECK(!g.has(far), "a coordinate never added is not found");
    }
#if KIND >= 1
    for (int i = 0; i < U; ++i)
        if (present[i])
        {
            unsigned cnt = 0;
            for (int j = 0; j < U; ++j) cnt += (present[j] && adj(i, j)) ? 1 : 0;
#if BOUNDS
            for (int d = 0; d < DIM; ++d) if (UC[i][d] == blo[d] || UC[i][d] == bup[d]) ++cnt;
#endif
            VT_CHECK(cell[i]->neighbors == cnt, "neighbour count matches the actual neighbours (plus boundary dimensions)");
            VT_CHECK(cell[i]->border == (cnt < limit), "interior/border classification matches the count and the limit");
        }
#endif
#if KIND == 2
    {
        unsigned ni = 0, ne = 0;
        for (int i = 0; i < U; ++i) if (present[i]) { if (cell[i]->border) ++ne; else ++ni; }
        VT_CHECK(g.countInternal() == ni && g.countExternal() == ne, "each cell sits in exactly one queue according to its classification");
        for (int i = 0; i < U; ++i)
            if (present[i])
            {
                auto *cx = static_cast<G::CellX *>(cell[i]);
                if (cell[i]->border)
                {
                    auto *e = reinterpret_cast<G::externalBHeap::Element *>(cx->heapElement);
                    VT_CHECK(e->position < g.external_.vector_.size() && g.external_.vector_[e->position] == e && e->data == cx, "border cell is in the external queue");
                }
                else
                {
                    auto *e = reinterpret_cast<G::internalBHeap::Element *>(cx->heapElement);
                    VT_CHECK(e->position < g.internal_.vector_.size() && g.internal_.vector_[e->position] == e && e->data == cx, "interior cell is in the internal queue");
                }
            }
        if (ne > 0)
        {
            G::Cell *t = g.topExternal();
            VT_CHECK(t->border, "top external cell is a border cell");
            for (int i = 0; i < U; ++i) if (present[i] && cell[i]->border) VT_CHECK(!(cell[i]->data < t->data), "top external cell is the best border cell");
        }
        if (ni > 0)
        {
            G::Cell *t = g.topInternal();
            VT_CHECK(!t->border, "top internal cell is an interior cell");
            for (int i = 0; i < U; ++i) if (present[i] && !cell[i]->border) VT_CHECK(!(cell[i]->data > t->data), "top internal cell is the best interior cell under its own order");
        }
    }
#endif
    vt_cover("grid end");
}

// connected components = partition induced by the neighbour relation
extern "C" void harness_components()
{
    union Holder { ompl::Grid<int> g; Holder() : g(DIM) {} ~Holder() {} } holder;
    ompl::Grid<int> &g = holder.g;
    ompl::Grid<int>::Cell *cell[U];
    bool present[U];
    for (int i = 0; i < U; ++i)
    {
#ifdef PRESENT
        present[i] = (PRESENT >> i) & 1;     // case split over subsets (the symbolic-subset query is undecided in 900 s)
#else
        present[i] = vt_nondet_bool();
#endif
        cell[i] = nullptr;
        if (present[i])
        {
            Coord c = mk(i);
            cell[i] = g.createCell(c);
            g.add(cell[i]);
        }
    }
    // reference reachability (Warshall) on the ghost adjacency
    bool conn[U][U];
    for (int i = 0; i < U; ++i)
        for (int j = 0; j < U; ++j) conn[i][j] = present[i] && present[j] && (i == j || adj(i, j));
    // (fully unrolled: CBMC counts the back edges of an LLVM loop nest cumulatively, U^3 of them here)
#pragma clang loop unroll(full)
    for (int k = 0; k < U; ++k)
#pragma clang loop unroll(full)
        for (int i = 0; i < U; ++i)
#pragma clang loop unroll(full)
            for (int j = 0; j < U; ++j)
                if (conn[i][k] && conn[k][j]) conn[i][j] = true;
    std::vector<std::vector<ompl::Grid<int>::Cell *>> comps = g.components();
    int compOf[U];
    for (int i = 0; i < U; ++i) compOf[i] = -1;
    unsigned total = 0;
    VT_CHECK(comps.size() <= U, "at most one component per cell");
    for (unsigned c = 0; c < U; ++c)
    {
        if (c >= comps.size()) continue;
        VT_CHECK(!comps[c].empty(), "no empty component");
        VT_CHECK(comps[c].size() <= U, "component not larger than the grid");
        if (c > 0) VT_CHECK(comps[c - 1].size() >= comps[c].size(), "components sorted by decreasing size");
        for (unsigned k = 0; k < U; ++k)
        {
            if (k >= comps[c].size()) continue;
            ++total;
            int idx = -1;
            for (int i = 0; i < U; ++i) if (present[i] && comps[c][k] == cell[i]) idx = i;
            VT_CHECK(idx >= 0, "component members are present cells");
            if (idx >= 0)
            {
                VT_CHECK(compOf[idx] < 0, "no cell appears in two components or twice in one");
                compOf[idx] = (int)c;
            }
        }
    }
    unsigned n = 0;
    for (int i = 0; i < U; ++i) n += present[i] ? 1 : 0;
    VT_CHECK(total == n, "components cover every present cell exactly once");
    for (int i = 0; i < U; ++i)
        for (int j = 0; j < U; ++j)
            if (present[i] && present[j] && compOf[i] >= 0 && compOf[j] >= 0)
                VT_CHECK((compOf[i] == compOf[j]) == conn[i][j], "two cells share a component exactly when they are connected");
    vt_cover("components end");
}
