// C19: two threads create random generators at the same time: each asks the (locked) seed generator for the next seed.
// Engine and distribution are an environment model (one read-modify-write of the engine state per draw).
#include "vt_seq.h"
#include <chrono>
#include <random>
std::chrono::system_clock::time_point std::chrono::system_clock::now() noexcept { return time_point(duration(nondet_long())); }
static inline unsigned long vt_step(unsigned long x) { return (x * 1664525u + 1013904223u) & 0xffffffu; }   // a bijection without fixed point
namespace std
{
    template <> void subtract_with_carry_engine<uint_fast32_t, 24, 10, 24>::seed(result_type v) { _M_x[0] = v; }
    template <> subtract_with_carry_engine<uint_fast32_t, 24, 10, 24>::result_type subtract_with_carry_engine<uint_fast32_t, 24, 10, 24>::operator()()
    {
        unsigned long x = _M_x[0];
        _M_x[0] = vt_step(x);
        return _M_x[0];
    }
    template <> template <> int uniform_int_distribution<int>::operator()(ranlux24_base &g, const param_type &) { return (int)g() + 1; }
}
#include "ompl/util/src/RandomNumbers.cpp"
void ompl::msg::log(const char *, int, LogLevel, const char *, ...) {}
union H { RNGSeedGenerator g; H() {} ~H() {} };
static H g_h;
static std::uint_fast32_t g_s[2];
static void vt_seq_other() { g_s[1] = g_h.g.nextSeed(); }
extern "C" void harness_next_seed()
{
    std::memset((void *)&g_h, 0, sizeof g_h);
    unsigned long x0 = nondet_ulong() & 0xffffffu;
    g_h.g.sGen_._M_x[0] = x0;
    vt_seq_run([] { g_s[0] = g_h.g.nextSeed(); });
    unsigned long a = vt_step(x0) + 1, b = vt_step(vt_step(x0)) + 1;
    VT_CHECK((g_s[0] == a && g_s[1] == b) || (g_s[0] == b && g_s[1] == a), "two generators created concurrently get the two next seeds of the sequence, one each");
    VT_CHECK(g_h.g.sGen_._M_x[0] == vt_step(vt_step(x0)), "the seed engine advanced by exactly two draws");
    VT_CHECK(g_h.g.someSeedsGenerated_, "drawing seeds is recorded");
    VT_CHECK(*(int *)&g_h.g.rngMutex_ == 0, "the seed generator's lock is released");
    vt_cover("next seed end");
}
