// C15: accept/reject logic of RejectionInfSampler and the generic heuristic InformedSampler::heuristicSolnCost against a stub
// base sampler (fresh state per draw) and a stub objective with a symbolic heuristic table per (start, state).
#include "vt_ompl.h"
#include "ompl/base/samplers/informed/RejectionInfSampler.h"
#include "ompl/base/ProblemDefinition.h"
#include "ompl/base/OptimizationObjective.h"
VT_CUT_STATESPACE_CTOR
void ompl::msg::log(const char *, int, LogLevel, const char *, ...) {}
#ifndef NSTART
#define NSTART 2
#endif
#ifndef ITERS
#define ITERS 3
#endif
#define MAXID (2 * ITERS + 2)
struct TState : ob::State { int id; };
static double g_H[NSTART][MAXID + 1];
static int g_draws, g_over;
struct StubSampler : ob::StateSampler
{
    StubSampler() : ob::StateSampler(nullptr) {}
    void sampleUniform(ob::State *s) override { if (g_draws >= MAXID) { g_over = 1; return; } static_cast<TState *>(s)->id = g_draws++; }
    void sampleUniformNear(ob::State *, const ob::State *, double) override {}
    void sampleGaussian(ob::State *, const ob::State *, double) override {}
};
struct StubObj : ob::OptimizationObjective
{
    StubObj() : ob::OptimizationObjective(ob::SpaceInformationPtr()) {}
    ob::Cost stateCost(const ob::State *) const override { return ob::Cost(0); }
    ob::Cost motionCost(const ob::State *, const ob::State *) const override { return ob::Cost(0); }
    ob::Cost motionCostHeuristic(const ob::State *a, const ob::State *b) const override
    {
        int i = static_cast<const TState *>(a)->id - 100, j = static_cast<const TState *>(b)->id;
        if (i < 0 || i >= NSTART || j < 0 || j > MAXID) { g_over = 1; return ob::Cost(0); }
        return ob::Cost(g_H[i][j]);
    }
};
VT_DECLARE_VTABLE(StubObj, "_ZTV7StubObj")
VT_DECLARE_VTABLE(StubSampler, "_ZTV11StubSampler")
extern "C" void vt_force_vtable() { StubObj *p = new StubObj(); StubSampler *q = new StubSampler(); (void)p; (void)q; }
alignas(16) static char obj_buf[sizeof(StubObj)], ss_buf[sizeof(StubSampler)];
union RH { ob::RejectionInfSampler r; char raw[sizeof(ob::RejectionInfSampler)]; RH() {} ~RH() {} };
union PH { ob::ProblemDefinition p; char raw[sizeof(ob::ProblemDefinition)]; PH() {} ~PH() {} };
static RH g_rh; static PH g_ph;
static TState g_start[NSTART];
static ob::RejectionInfSampler *setup()
{
    std::memset(g_rh.raw, 0, sizeof g_rh.raw); std::memset(g_ph.raw, 0, sizeof g_ph.raw);
    new (&g_ph.p.startStates_) std::vector<ob::State *>();
    for (int i = 0; i < NSTART; ++i) { g_start[i].id = 100 + i; g_ph.p.startStates_.push_back(&g_start[i]); }
    ob::RejectionInfSampler *r = &g_rh.r;
    vt::set_raw(r->probDefn_, &g_ph.p);
    vt::set_raw(r->opt_, (ob::OptimizationObjective *)VT_RAW_OBJECT(StubObj, StubObj, obj_buf));
    vt::set_raw(r->baseSampler_, (ob::StateSampler *)VT_RAW_OBJECT(StubSampler, StubSampler, ss_buf));
    r->numIters_ = ITERS;
#pragma clang loop unroll(full)
    for (int i = 0; i < NSTART; ++i)
#pragma clang loop unroll(full)
        for (int j = 0; j <= MAXID; ++j) g_H[i][j] = (double)(nondet_uchar() & 31) * 0.5;
    return r;
}
static double ref_h(int id) { double b = 1.0 / 0.0; for (int i = 0; i < NSTART; ++i) if (g_H[i][id] < b) b = g_H[i][id]; return b; }
extern "C" void harness_heuristic()
{
    ob::RejectionInfSampler *r = setup();
    TState s; s.id = nondet_uchar() % (MAXID + 1);
    double h = r->ob::InformedSampler::heuristicSolnCost(&s).value();
    VT_CHECK(!g_over, "environment used within its bound");
    VT_CHECK(h == ref_h(s.id), "the heuristic solution cost through a state is the best over ALL start states");
    vt_cover("heuristic end");
}
extern "C" void harness_rejection_one_bound()
{
    ob::RejectionInfSampler *r = setup();
    TState s; s.id = -1;
    double maxc = (double)(nondet_uchar() & 31) * 0.5;
    bool ok = r->ob::RejectionInfSampler::sampleUniform(&s, ob::Cost(maxc));
    VT_CHECK(!g_over, "environment used within its bound");
    VT_CHECK(g_draws <= ITERS, "at most the configured number of attempts");
    if (ok) { VT_CHECK(s.id >= 0 && ref_h(s.id) < maxc, "a successful informed sample has a heuristic solution cost strictly below the bound"); vt_cover("accepted"); }
    else
    {
        VT_CHECK(g_draws == ITERS, "failure only after all attempts");
        for (int j = 0; j < ITERS; ++j) VT_CHECK(!(ref_h(j) < maxc), "no drawn state that could still help was rejected");
    }
    vt_cover("rejection (one bound) end");
}
extern "C" void harness_rejection_two_bounds()
{
    ob::RejectionInfSampler *r = setup();
    TState s; s.id = -1;
    double maxc = (double)(nondet_uchar() & 31) * 0.5, minc = (double)(nondet_uchar() & 31) * 0.5;
    bool ok = r->ob::RejectionInfSampler::sampleUniform(&s, ob::Cost(minc), ob::Cost(maxc));
    VT_CHECK(!g_over, "environment used within its bound");
    if (ok) { VT_CHECK(s.id >= 0 && ref_h(s.id) < maxc && !(ref_h(s.id) < minc), "a successful sample lies strictly below the upper and not below the lower cost bound"); vt_cover("accepted"); }
    vt_cover("rejection (two bounds) end");
}
