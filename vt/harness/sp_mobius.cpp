// Moebius strip: metric laws of the real MobiusStateSpace::distance (C06) over real SO(2) and R^1 components.
#include "vt_ompl.h"
#include "ompl/base/spaces/special/MobiusStateSpace.h"
#include "ompl/base/spaces/SO2StateSpace.h"
#include "ompl/base/spaces/RealVectorStateSpace.h"
namespace ob = ompl::base;
typedef ob::MobiusStateSpace M;
static const double PI = 3.14159265358979323846;
VT_DECLARE_VTABLE(MOB, "_ZTVN4ompl4base16MobiusStateSpaceE")
VT_DECLARE_VTABLE(SO2, "_ZTVN4ompl4base13SO2StateSpaceE")
VT_DECLARE_VTABLE(RV, "_ZTVN4ompl4base20RealVectorStateSpaceE")
union MH { M m; MH() {} ~MH() {} };
union SH { ob::SO2StateSpace s; SH() {} ~SH() {} };
union RH { ob::RealVectorStateSpace r; RH() {} ~RH() {} };
static MH g_m; static SH g_s; static RH g_r;
static double g_vmax;
static M *setup()
{
    M *m = &g_m.m;
    *(void ***)m = &vt_vtbl_MOB[2];
    *(void ***)&g_s.s = &vt_vtbl_SO2[2];
    ob::RealVectorStateSpace *rv = &g_r.r;
    *(void ***)rv = &vt_vtbl_RV[2];
    rv->dimension_ = 1; rv->stateBytes_ = 8;
    new (&rv->bounds_.low) std::vector<double>(); new (&rv->bounds_.high) std::vector<double>();
    g_vmax = vt_double_in(0.0, 1e3);
    rv->bounds_.low.push_back(-g_vmax); rv->bounds_.high.push_back(g_vmax);
    new (&m->components_) std::vector<ob::StateSpacePtr>();
    new (&m->weights_) std::vector<double>();
    m->components_.reserve(2); m->weights_.reserve(2);
    ob::StateSpacePtr p;
    void *z = nullptr;
    vt::set_raw(p, (ob::StateSpace *)&g_s.s); m->components_.push_back(p); std::memcpy((void *)&p, &z, sizeof z);
    vt::set_raw(p, (ob::StateSpace *)rv); m->components_.push_back(p); std::memcpy((void *)&p, &z, sizeof z);
    m->weights_.push_back(1.0); m->weights_.push_back(1.0);
    m->componentCount_ = 2;
    return m;
}
struct MSt : M::StateType
{
    ob::SO2StateSpace::StateType u; ob::RealVectorStateSpace::StateType v; double vv[1]; ob::State *c[2];
    MSt() { v.values = vv; c[0] = &u; c[1] = &v; components = c; }
    void inb() { u.value = nondet_double(); VT_ASSUME(u.value >= -PI && u.value < PI); vv[0] = nondet_double(); VT_ASSUME(vv[0] >= -g_vmax && vv[0] <= g_vmax); }
};
extern "C" void harness_mobius_symmetry()
{
    M *m = setup();
    MSt a, b;
    a.inb(); b.inb();
    double ab = m->M::distance(&a, &b), ba = m->M::distance(&b, &a);
    VT_CHECK(ab >= 0.0, "distance is non-negative");
    VT_CHECK(ab == ba, "distance is symmetric");
    vt_cover("mobius symmetry end");
}
extern "C" void harness_mobius_self()
{
    M *m = setup();
    MSt a;
    a.inb();
    VT_CHECK(m->M::distance(&a, &a) == 0.0, "distance from a state to itself is zero");
    vt_cover("mobius self end");
}
extern "C" void harness_mobius_triangle()
{
    M *m = setup();
    MSt a, b, c;
    a.inb(); b.inb(); c.inb();
#ifdef VT_EXCL_KF_MOBIUS_TRIANGLE
    // known finding excluded: triples in which the seam branch (|du| > pi) is taken for some side
    VT_ASSUME(__builtin_fabs(b.u.value - a.u.value) <= PI && __builtin_fabs(c.u.value - b.u.value) <= PI && __builtin_fabs(c.u.value - a.u.value) <= PI);
#endif
    VT_CHECK(m->M::distance(&a, &c) <= m->M::distance(&a, &b) + m->M::distance(&b, &c) + 1e-6, "triangle inequality (the space claims to be metric)");
    vt_cover("mobius triangle end");
}
