// C01/C03 kernels: PlannerStatus, GoalRegion::isSatisfied, PlannerInputStates::nextStart/restart/clear bookkeeping,
// PathGeometric::check.
#include "vt_ompl.h"
#include "ompl/base/Planner.h"
#include "ompl/base/PlannerStatus.h"
#include "ompl/base/ProblemDefinition.h"
#include "ompl/base/goals/GoalRegion.h"
#include "ompl/geometric/PathGeometric.h"
VT_CUT_STATESPACE_CTOR
namespace og = ompl::geometric;
void ompl::msg::log(const char *, int, LogLevel, const char *, ...) {}
#ifndef NS
#define NS 3
#endif
struct TState : ob::State { int id; };
static unsigned char g_inb[NS + 1], g_val[NS + 1], g_motion[NS + 1];
static int g_bad, g_valid_calls_out_of_bounds, g_motion_calls, g_motion_order_bad;
struct StubSpace : ob::StateSpace
{
    unsigned int getDimension() const override { return 1; }
    double getMaximumExtent() const override { return 1; }
    double getMeasure() const override { return 1; }
    void enforceBounds(ob::State *) const override {}
    bool satisfiesBounds(const ob::State *s) const override { return g_inb[static_cast<const TState *>(s)->id]; }
    void copyState(ob::State *d, const ob::State *s) const override { static_cast<TState *>(d)->id = static_cast<const TState *>(s)->id; }
    double distance(const ob::State *, const ob::State *) const override { return 0; }
    bool equalStates(const ob::State *, const ob::State *) const override { return false; }
    void interpolate(const ob::State *, const ob::State *, double, ob::State *) const override {}
    ob::StateSamplerPtr allocDefaultStateSampler() const override { return ob::StateSamplerPtr(); }
    ob::State *allocState() const override { return nullptr; }
    void freeState(ob::State *) const override {}
    void printState(const ob::State *, std::ostream &) const override {}
};
struct StubSVC : ob::StateValidityChecker
{
    StubSVC() : ob::StateValidityChecker((ob::SpaceInformation *)nullptr) {}
    bool isValid(const ob::State *s) const override { int id = static_cast<const TState *>(s)->id; if (!g_inb[id]) ++g_valid_calls_out_of_bounds; return g_val[id]; }
};
struct StubMV : ob::MotionValidator
{
    StubMV() : ob::MotionValidator((ob::SpaceInformation *)nullptr) {}
    bool checkMotion(const ob::State *a, const ob::State *b) const override
    {
        int i = static_cast<const TState *>(a)->id, j = static_cast<const TState *>(b)->id;
        if (j != i + 1 || i != g_motion_calls) g_motion_order_bad = 1;
        ++g_motion_calls;
        return g_motion[i];
    }
    bool checkMotion(const ob::State *a, const ob::State *b, std::pair<ob::State *, double> &) const override { return checkMotion(a, b); }
};
alignas(16) static char sp_buf[sizeof(StubSpace)], svc_buf[sizeof(StubSVC)], mv_buf[sizeof(StubMV)];
static vt::SIBuf g_si;
static TState g_st[NS + 1];
VT_DECLARE_VTABLE(SI, "_ZTVN4ompl4base16SpaceInformationE")
static void env()
{
    g_si.init(new (sp_buf) StubSpace(), new (svc_buf) StubSVC(), new (mv_buf) StubMV(), &vt_vtbl_SI[2]);
    for (int i = 0; i <= NS; ++i) { g_st[i].id = i; g_inb[i] = nondet_uchar() & 1; g_val[i] = nondet_uchar() & 1; g_motion[i] = nondet_uchar() & 1; }
}

extern "C" void harness_status()
{
    bool has = vt_nondet_bool(), approx = vt_nondet_bool();
    ob::PlannerStatus st(has, approx);
    VT_CHECK((bool)st == has, "a status built from (hasSolution, approximate) is a solution status exactly when there is a solution");
    VT_CHECK(((ob::PlannerStatus::StatusType)st == ob::PlannerStatus::APPROXIMATE_SOLUTION) == (has && approx), "approximate status exactly for an approximate solution");
    VT_CHECK(((ob::PlannerStatus::StatusType)st == ob::PlannerStatus::EXACT_SOLUTION) == (has && !approx), "exact status exactly for an exact solution");
    VT_CHECK(((ob::PlannerStatus::StatusType)st == ob::PlannerStatus::TIMEOUT) == !has, "no solution is reported as timeout");
    unsigned v = nondet_uchar() % ob::PlannerStatus::TYPE_COUNT;
    ob::PlannerStatus any((ob::PlannerStatus::StatusType)v);
    VT_CHECK((bool)any == (v == ob::PlannerStatus::APPROXIMATE_SOLUTION || v == ob::PlannerStatus::EXACT_SOLUTION), "only the two solution statuses convert to true");
    vt_cover("status end");
}
static double g_goal_d;
struct StubGoal : ob::GoalRegion
{
    StubGoal() : ob::GoalRegion(ob::SpaceInformationPtr()) {}
    double distanceGoal(const ob::State *) const override { return g_goal_d; }
};
VT_DECLARE_VTABLE(StubGoal, "_ZTV8StubGoal")
extern "C" void vt_force_vtable() { StubGoal *p = new StubGoal(); (void)p; }
extern "C" void harness_goal_region()
{
    alignas(16) static char g_buf[sizeof(StubGoal)];
    StubGoal *g = VT_RAW_OBJECT(StubGoal, StubGoal, g_buf);
    double thr = nondet_double(), d = nondet_double();
    VT_ASSUME(thr == thr && d == d);
    g->threshold_ = thr; g_goal_d = d;
    TState s; s.id = 0;
    double out = -1.0;
    VT_CHECK(g->ob::GoalRegion::isSatisfied(&s) == (d < thr), "a state satisfies the goal region exactly when its goal distance is below the threshold");
    VT_CHECK(g->ob::GoalRegion::isSatisfied(&s, &out) == (d < thr) && vt_same_bits(out, d), "the reported goal distance is the state's goal distance");
    vt_cover("goal region end");
}
// start states are handed out exactly once each, in order, skipping out-of-bounds / invalid ones; restart() starts over,
// clear() forgets the problem
extern "C" void harness_next_start()
{
    env();
    union PH { ob::ProblemDefinition p; char raw[sizeof(ob::ProblemDefinition)]; PH() {} ~PH() {} };
    static PH ph;
    std::memset(ph.raw, 0, sizeof ph.raw);
    new (&ph.p.startStates_) std::vector<ob::State *>();
    for (int i = 0; i < NS; ++i) ph.p.startStates_.push_back(&g_st[i]);
    union IH { ob::PlannerInputStates i; char raw[sizeof(ob::PlannerInputStates)]; IH() {} ~IH() {} };
    static IH ih;
    std::memset(ih.raw, 0, sizeof ih.raw);
    ob::PlannerInputStates *pis = &ih.i;
    vt::set_raw(pis->pdef_, &ph.p);
    pis->si_ = g_si.si();
    unsigned cursor = 0;
    for (int step = 0; step < NS + 2; ++step)
    {
        unsigned op = nondet_uchar() % 4;
        if (op == 3) { pis->ob::PlannerInputStates::restart(); cursor = 0; vt_cover("restart used"); continue; }
        VT_CHECK(pis->ob::PlannerInputStates::haveMoreStartStates() == (cursor < NS), "haveMoreStartStates tells whether unseen start states remain");
        const ob::State *got = pis->ob::PlannerInputStates::nextStart();
        int want = -1;
        for (int i = 0; i < NS; ++i) if (want < 0 && (unsigned)i >= cursor && g_inb[i] && g_val[i]) want = i;
        if (want >= 0) { VT_CHECK(got == &g_st[want], "nextStart returns the next start state that is within bounds and valid"); cursor = want + 1; }
        else { VT_CHECK(got == nullptr, "nextStart returns null when no usable start state remains"); cursor = NS; }
        VT_CHECK(pis->getSeenStartStatesCount() == cursor, "every start state is consumed at most once until restart()");
    }
    VT_CHECK(g_valid_calls_out_of_bounds == 0, "validity is only asked for states within bounds");
    void *z = nullptr; std::memcpy((void *)&pis->pdef_, &z, sizeof z);
    vt_cover("next start end");
}
extern "C" void harness_path_check()
{
    env();
    union PGH { og::PathGeometric p; char raw[sizeof(og::PathGeometric)]; PGH() {} ~PGH() {} };
    static PGH pg;
    std::memset(pg.raw, 0, sizeof pg.raw);
    og::PathGeometric *path = &pg.p;
    vt::set_raw(path->si_, g_si.si());
    new (&path->states_) std::vector<ob::State *>();
    for (int i = 0; i < NS; ++i) path->states_.push_back(&g_st[i]);
    bool r = path->og::PathGeometric::check();
    bool want = true;
#if NS > 0
    want = g_val[0];
    for (int i = 0; i + 1 < NS; ++i) want = want && g_motion[i];
#endif
    VT_CHECK(r == want, "a path passes the check exactly when its first state is valid and every consecutive motion is valid");
    VT_CHECK(!g_motion_order_bad, "motions are checked between consecutive states, in order");
    if (r) VT_CHECK(g_motion_calls == (NS > 0 ? NS - 1 : 0), "a passing check has looked at every motion");
    if (r) vt_cover("path passes"); 
    vt_cover("path check end");
}
