// C11: ompl::BinaryHeap — one inductive step from an arbitrary valid heap of N elements (N, K concrete per
// query; all keys symbolic).  Invariant: heap order under the comparator and position == index.
#include <vector>
#include <functional>
#include "ompl/datastructures/BinaryHeap.h"
#include "vt.h"

#ifndef N
#define N 4
#endif
#ifndef K
#define K 0
#endif
#ifndef M
#define M 2
#endif
#ifndef INST
#define INST 0
#endif

#if INST == 0
typedef int T;
typedef ompl::BinaryHeap<int> H;
static inline bool LT(const T &a, const T &b) { return a < b; }
static inline bool EQ(const T &a, const T &b) { return a == b; }
static inline T nondet_T() { return nondet_int(); }
#elif INST == 1
typedef int T;
typedef ompl::BinaryHeap<int, std::greater<int>> H;
static inline bool LT(const T &a, const T &b) { return a > b; }
static inline bool EQ(const T &a, const T &b) { return a == b; }
static inline T nondet_T() { return nondet_int(); }
#else
struct Key { int prio; int id; };
struct ByPrio { bool operator()(const Key &a, const Key &b) const { return a.prio < b.prio; } };
typedef Key T;
typedef ompl::BinaryHeap<Key, ByPrio> H;
static inline bool LT(const T &a, const T &b) { return a.prio < b.prio; }
static inline bool EQ(const T &a, const T &b) { return a.prio == b.prio && a.id == b.id; }
static inline T nondet_T() { Key k; k.prio = nondet_int(); k.id = nondet_int(); return k; }
#endif

static H::Element *g_el[N + M + 1];
static T g_orig[N + M + 1];

static void fill(H &h, unsigned n, bool assume_invariant)
{
    h.vector_.reserve(N + M + 1);
    for (unsigned i = 0; i < n; ++i)
    {
        g_orig[i] = nondet_T();
        g_el[i] = h.newElement(g_orig[i], i);
        h.vector_.push_back(g_el[i]);
    }
    if (assume_invariant)
        for (unsigned i = 1; i < n; ++i)
            VT_ASSUME(!LT(h.vector_[i]->data, h.vector_[(i - 1) / 2]->data));
}
static int count(const H &h, const T &probe)
{
    int c = 0;
    for (unsigned i = 0; i < h.vector_.size(); ++i) c += EQ(h.vector_[i]->data, probe) ? 1 : 0;
    return c;
}
static void check_invariant(const H &h)
{
    for (unsigned i = 0; i < h.vector_.size(); ++i)
    {
        VT_CHECK(h.vector_[i]->position == i, "element position equals its index");
        if (i > 0) VT_CHECK(!LT(h.vector_[i]->data, h.vector_[(i - 1) / 2]->data), "heap order");
    }
    if (h.size() > 0)
    {
        VT_CHECK(h.top() == h.vector_[0], "top is the root");
        for (unsigned i = 1; i < h.vector_.size(); ++i)
            VT_CHECK(!LT(h.vector_[i]->data, h.top()->data), "top is a minimum");
    }
    else
        VT_CHECK(h.top() == nullptr, "top of empty heap is null");
}
// every handle except `skip` still addresses its own element with its own data
static void check_handles(const H &h, unsigned n, unsigned skip)
{
    for (unsigned i = 0; i < n; ++i)
        if (i != skip)
        {
            VT_CHECK(g_el[i]->position < h.size() && h.vector_[g_el[i]->position] == g_el[i], "handle still identifies its element");
            VT_CHECK(EQ(g_el[i]->data, g_orig[i]), "element data unchanged");
        }
}

static H::Element *g_ev_ins, *g_ev_rem;
static int g_n_ins, g_n_rem;
static void on_ins(H::Element *e, void *arg) { g_ev_ins = e; ++g_n_ins; }
static void on_rem(H::Element *e, void *arg) { g_ev_rem = e; ++g_n_rem; }

extern "C" void harness_insert()
{
    H h;
    fill(h, N, true);
    h.onAfterInsert(&on_ins, nullptr);
    T probe = nondet_T(), x = nondet_T();
    int c0 = count(h, probe);
    H::Element *e = h.insert(x);
    VT_CHECK(h.size() == N + 1, "size after insert");
    VT_CHECK(EQ(e->data, x), "inserted handle carries the inserted data");
    VT_CHECK(e->position < h.size() && h.vector_[e->position] == e, "inserted handle identifies its element");
    VT_CHECK(count(h, probe) == c0 + (EQ(x, probe) ? 1 : 0), "multiset after insert");
    VT_CHECK(g_n_ins == 1 && g_ev_ins == e, "after-insert event fired once for the new element");
    check_invariant(h);
    check_handles(h, N, N + 99);
    vt_cover("insert end");
}

extern "C" void harness_remove()
{
    H h;
    fill(h, N, true);
    h.onBeforeRemove(&on_rem, nullptr);
    T probe = nondet_T();
    int c0 = count(h, probe);
    T removed = g_orig[K];
    h.remove(g_el[K]);
    VT_CHECK(h.size() == N - 1, "size after remove");
    VT_CHECK(count(h, probe) == c0 - (EQ(removed, probe) ? 1 : 0), "multiset after remove");
    VT_CHECK(g_n_rem == 1 && g_ev_rem == g_el[K], "before-remove event fired once for the removed element");
    check_invariant(h);
    check_handles(h, N, K);
    vt_cover("remove end");
}

extern "C" void harness_pop()
{
    H h;
    fill(h, N, true);
    T probe = nondet_T();
    int c0 = count(h, probe);
    T top = h.top()->data;
    for (unsigned i = 0; i < N; ++i) VT_CHECK(!LT(g_orig[i], top), "top is a minimum before pop");
    h.pop();
    VT_CHECK(h.size() == N - 1, "size after pop");
    VT_CHECK(count(h, probe) == c0 - (EQ(top, probe) ? 1 : 0), "multiset after pop");
    for (unsigned i = 0; i < h.size(); ++i) VT_CHECK(!LT(h.vector_[i]->data, top), "popped element not greater than any remaining");
    check_invariant(h);
    check_handles(h, N, 0);
    vt_cover("pop end");
}

extern "C" void harness_update()
{
    H h;
    fill(h, N, true);
    T probe = nondet_T(), x = nondet_T();
    int c0 = count(h, probe);
    T old = g_orig[K];
    g_el[K]->data = x;
    g_orig[K] = x;
    h.update(g_el[K]);
    VT_CHECK(h.size() == N, "size after update");
    VT_CHECK(count(h, probe) == c0 - (EQ(old, probe) ? 1 : 0) + (EQ(x, probe) ? 1 : 0), "multiset after update");
    check_invariant(h);
    check_handles(h, N, N + 99);
    vt_cover("update end");
}

// arbitrary (unordered) contents -> rebuild() must establish the invariant
extern "C" void harness_rebuild()
{
    H h;
    fill(h, N, false);
    T probe = nondet_T();
    int c0 = count(h, probe);
    h.rebuild();
    VT_CHECK(h.size() == N, "size after rebuild");
    VT_CHECK(count(h, probe) == c0, "multiset after rebuild");
    check_invariant(h);
    check_handles(h, N, N + 99);
    vt_cover("rebuild end");
}

extern "C" void harness_buildfrom()
{
    H h;
    fill(h, M, true);   // previous contents are discarded
    std::vector<T> list;
    list.reserve(N);
    for (unsigned i = 0; i < N; ++i) list.push_back(nondet_T());
    T probe = nondet_T();
    int c0 = 0;
    for (unsigned i = 0; i < N; ++i) c0 += EQ(list[i], probe) ? 1 : 0;
    h.buildFrom(list);
    VT_CHECK(h.size() == N, "size after buildFrom");
    VT_CHECK(count(h, probe) == c0, "multiset after buildFrom");
    check_invariant(h);
    vt_cover("buildFrom end");
}

extern "C" void harness_insert_vector()
{
    H h;
    fill(h, N, true);
    std::vector<T> list;
    list.reserve(M);
    for (unsigned i = 0; i < M; ++i) list.push_back(nondet_T());
    T probe = nondet_T();
    int c0 = count(h, probe);
    for (unsigned i = 0; i < M; ++i) c0 += EQ(list[i], probe) ? 1 : 0;
    h.insert(list);
    VT_CHECK(h.size() == N + M, "size after bulk insert");
    VT_CHECK(count(h, probe) == c0, "multiset after bulk insert");
    check_invariant(h);
    check_handles(h, N, N + 99);
    vt_cover("bulk insert end");
}

// sort(list) sorts any list and leaves the heap's own content alone
extern "C" void harness_sort()
{
    H h;
    fill(h, M, true);
    std::vector<T> list;
    list.reserve(N);
    for (unsigned i = 0; i < N; ++i) list.push_back(nondet_T());
    T probe = nondet_T();
    int c0 = 0;
    for (unsigned i = 0; i < N; ++i) c0 += EQ(list[i], probe) ? 1 : 0;
    h.sort(list);
    VT_CHECK(list.size() == N, "sorted list keeps its length");
    int c1 = 0;
    for (unsigned i = 0; i < N; ++i) c1 += EQ(list[i], probe) ? 1 : 0;
    VT_CHECK(c1 == c0, "sorted list is a permutation");
    for (unsigned i = 0; i + 1 < N; ++i) VT_CHECK(!LT(list[i + 1], list[i]), "sorted list is non-decreasing");
    VT_CHECK(h.size() == M, "heap content untouched by sort");
    check_invariant(h);
    check_handles(h, M, N + M + 99);
    vt_cover("sort end");
}

// pops from a valid heap come out in non-decreasing order (N pops), size counts down, clear empties
extern "C" void harness_drain()
{
    H h;
    fill(h, N, true);
    T prev = h.top()->data;
    for (unsigned i = 0; i < N; ++i)
    {
        VT_CHECK(h.size() == N - i, "size counts live elements");
        T cur = h.top()->data;
        VT_CHECK(!LT(cur, prev), "pops are non-decreasing");
        prev = cur;
        h.pop();
    }
    VT_CHECK(h.empty() && h.top() == nullptr, "empty after popping everything");
    vt_cover("drain end");
}

extern "C" void harness_clear()
{
    H h;
    fill(h, N, true);
    std::vector<T> content;
    content.reserve(N);
    h.getContent(content);
    VT_CHECK(content.size() == N, "getContent returns every element");
    h.clear();
    VT_CHECK(h.size() == 0 && h.empty() && h.top() == nullptr, "clear empties the heap");
    H::Element *e = h.insert(nondet_T());
    VT_CHECK(h.size() == 1 && h.top() == e, "usable after clear");
    vt_cover("clear end");
}
