#include <unordered_map>
#include <vector>
#include "vt.h"
#include "ompl/datastructures/Grid.h"
typedef ompl::Grid<int> G;
typedef G::Coord Coord;
#ifndef NADD
#define NADD 3
#endif
extern "C" void harness_exp()
{
    G &g = *new G(2);
    G::Cell *cell[4];
    static const int UC[4][2] = {{0,0},{0,1},{1,0},{1,1}};
    for (int i = 0; i < NADD; ++i)
    {
        Coord c(2); c[0] = UC[i][0]; c[1] = UC[i][1];
        cell[i] = g.createCell(c);
        g.add(cell[i]);
    }
#if STEP >= 1
    bool rm0 = vt_nondet_bool();
    if (rm0) { g.remove(cell[0]); }
#endif
#if STEP >= 2
    bool rm1 = vt_nondet_bool();
    if (rm1) { g.remove(cell[1]); }
#endif
#if STEP >= 4
    bool rm2 = vt_nondet_bool();
    if (rm2) { g.remove(cell[2]); }
#endif
#if STEP >= 5
    if (rm0) g.destroyCell(cell[0]);
#endif
#if STEP >= 6
    if (rm1) g.destroyCell(cell[1]);
    if (rm2) g.destroyCell(cell[2]);
#endif
    Coord c(2); c[0] = 0; c[1] = 0;
#if STEP >= 1
    VT_CHECK(g.has(c) == !rm0, "has");
#else
    VT_CHECK(g.has(c), "has");
#endif
#if STEP >= 3
    G::CellArray nb; g.neighbors(c, nb);
    VT_CHECK(nb.size() <= 2, "nb");
#endif
    vt_cover("end");
}
