// C10: NearestNeighborsLinear<int> / NearestNeighborsSqrtApprox<int> — one step from ARBITRARY contents (N elements,
// symbolic ids in [0,U) with duplicates allowed) under a symbolic integer-valued distance table.
#include <vector>
#include <functional>
#include "vt.h"
#include "ompl/datastructures/NearestNeighborsLinear.h"
#include "ompl/datastructures/NearestNeighborsSqrtApprox.h"
#ifndef N
#define N 3
#endif
#ifndef U
#define U 4
#endif
#ifndef SQRT
#define SQRT 0
#endif
#if SQRT
typedef ompl::NearestNeighborsSqrtApprox<int> NN;
#else
typedef ompl::NearestNeighborsLinear<int> NN;
#endif
static double g_D[U][U];
static double dist(const int &a, const int &b) { return g_D[(unsigned)a % U][(unsigned)b % U]; }
static int g_orig[N + 3];
union Holder { NN nn; Holder() {} ~Holder() {} };
static Holder g_h;
static NN *setup()
{
    NN *nn = new (&g_h.nn) NN();
    nn->setDistanceFunction(dist);
#pragma clang loop unroll(full)
    for (int i = 0; i < U; ++i)
#pragma clang loop unroll(full)
        for (int j = 0; j < U; ++j) g_D[i][j] = (double)(nondet_uchar() & 7);    // any non-negative table (ties included)
    for (int i = 0; i < N; ++i) { g_orig[i] = vt_int_in(0, U - 1); nn->data_.push_back(g_orig[i]); }
#if SQRT
    nn->checks_ = 1 + (nondet_uchar() % (N + 1)); nn->offset_ = nondet_uchar() % nn->checks_;
#endif
    return nn;
}
static int countv(const std::vector<int> &v, int x, unsigned cap) { int c = 0; for (unsigned i = 0; i < cap; ++i) if (i < v.size() && v[i] == x) ++c; return c; }
static int counto(int x, int n) { int c = 0; for (int i = 0; i < n; ++i) if (g_orig[i] == x) ++c; return c; }

extern "C" void harness_add_remove()
{
    NN *nn = setup();
    int probe = vt_int_in(0, U - 1), x = vt_int_in(0, U - 1);
    nn->add(x);
    VT_CHECK(nn->size() == N + 1, "size after add");
    VT_CHECK(countv(nn->data_, probe, N + 3) == counto(probe, N) + (probe == x ? 1 : 0), "contents after add are the old multiset plus the new element");
    std::vector<int> two;
    int y = vt_int_in(0, U - 1), z = vt_int_in(0, U - 1);
    two.push_back(y); two.push_back(z);
    nn->add(two);
    VT_CHECK(nn->size() == N + 3, "size after bulk add");
    VT_CHECK(countv(nn->data_, probe, N + 3) == counto(probe, N) + (probe == x ? 1 : 0) + (probe == y ? 1 : 0) + (probe == z ? 1 : 0), "contents after bulk add");
    std::vector<int> lst;
    nn->list(lst);
    VT_CHECK(lst.size() == N + 3 && countv(lst, probe, N + 3) == countv(nn->data_, probe, N + 3), "list returns the contents");
    int r = vt_int_in(0, U - 1);
    int before = countv(nn->data_, r, N + 3), pb = countv(nn->data_, probe, N + 3);
    bool ok = nn->remove(r);
    VT_CHECK(ok == (before > 0), "remove reports whether the element was present");
    VT_CHECK(nn->size() == (unsigned)(N + 3 - (ok ? 1 : 0)), "remove takes out exactly one element");
    VT_CHECK(countv(nn->data_, probe, N + 3) == pb - ((ok && probe == r) ? 1 : 0), "remove takes out exactly one copy of the element and nothing else");
    nn->clear();
    VT_CHECK(nn->size() == 0, "clear empties the structure");
    vt_cover("add/remove end");
}
extern "C" void harness_nearest()
{
    NN *nn = setup();
    int q = vt_int_in(0, U - 1);
#if N > 0
    int e = nn->nearest(q);
    VT_CHECK(counto(e, N) > 0, "nearest returns a current member");
#if !SQRT
    for (int i = 0; i < N; ++i) VT_CHECK(g_D[e][q] <= g_D[g_orig[i]][q], "nearest returns an element at the minimum distance");
#else
    VT_CHECK(nn->offset_ < nn->checks_, "approximate structure keeps its scan offset in range");
#endif
#endif
    vt_cover("nearest end");
}
extern "C" void harness_nearest_k()
{
    NN *nn = setup();
    int q = vt_int_in(0, U - 1), probe = vt_int_in(0, U - 1);
    unsigned k = nondet_uchar() % (N + 3);
    std::vector<int> nbh;
    nbh.push_back(77);
    nn->nearestK(q, k, nbh);
    unsigned want = k < N ? k : N;
    VT_CHECK(nbh.size() == want, "k-nearest returns min(k, size) elements");
    for (unsigned i = 0; i + 1 < N; ++i) if (i + 1 < nbh.size()) VT_CHECK(g_D[nbh[i]][q] <= g_D[nbh[i + 1]][q], "k-nearest is in non-decreasing order of distance");
    VT_CHECK(countv(nbh, probe, N) <= counto(probe, N), "k-nearest returns current members, none more often than stored");
    if (want > 0 && want == nbh.size())
    {
        double last = g_D[nbh[want - 1]][q];
        if (g_D[probe][q] < last) VT_CHECK(countv(nbh, probe, N) == counto(probe, N), "every stored element strictly closer than the k-th result is returned");
    }
    vt_cover("nearestK end");
}
extern "C" void harness_nearest_r()
{
    NN *nn = setup();
    int q = vt_int_in(0, U - 1), probe = vt_int_in(0, U - 1);
    double r = (double)(nondet_uchar() & 15) * 0.5;
    std::vector<int> nbh;
    nbh.push_back(77);
    nn->nearestR(q, r, nbh);
    VT_CHECK(nbh.size() <= N, "radius query returns at most the contents");
    for (unsigned i = 0; i + 1 < N; ++i) if (i + 1 < nbh.size()) VT_CHECK(g_D[nbh[i]][q] <= g_D[nbh[i + 1]][q], "radius query is in non-decreasing order of distance");
    VT_CHECK(countv(nbh, probe, N) == (g_D[probe][q] <= r ? counto(probe, N) : 0), "radius query returns exactly the stored elements within the radius");
    vt_cover("nearestR end");
}
