// C16: traversal logic of ProjectedStateSpace::discreteGeodesic and ConstrainedStateSpace::geodesicInterpolate / interpolate.
// The constraint projection, the wrapped space's interpolation and all distances are environment stubs: project()
// succeeds or fails symbolically and, on success, marks the state "on the manifold"; distances are symbolic.
#include "vt_ompl.h"
#include "ompl/base/spaces/constraint/ProjectedStateSpace.h"
#include "ompl/base/Constraint.h"
VT_CUT_STATESPACE_CTOR
#ifndef KMAX
#define KMAX 3
#endif
#define POOL (3 * KMAX + 8)
struct Inner : ob::State { int id; int on; };       // on: 1 = known to satisfy the constraint
struct TState : ob::WrapperStateSpace::StateType     // constrained spaces hand out wrapper states around an ambient state
{
    Inner inner;
    TState() : ob::WrapperStateSpace::StateType(&inner) { inner.id = -1; inner.on = 0; }
    int &id() { return inner.id; }
    int &on() { return inner.on; }
};
static TState g_pool[POOL];
static int g_alloc, g_free, g_over, g_iter;
static int g_nextid = 10;
static double g_delta, g_lambda;
static double g_step[KMAX + 2], g_dto[KMAX + 2], g_d0;   // symbolic distances handed out by the environment (between PROJECTED states)
static double g_step_pre[KMAX + 2], g_dto_pre[KMAX + 2];  // unrelated values for a scratch state that has not been projected (yet): the ambient step leaves the manifold
static int g_scratch_iter;
struct Wrapped : ob::StateSpace       // the ambient space
{
    unsigned int getDimension() const override { return 1; }
    double getMaximumExtent() const override { return 1; }
    double getMeasure() const override { return 1; }
    void enforceBounds(ob::State *) const override {}
    bool satisfiesBounds(const ob::State *) const override { return true; }
    void copyState(ob::State *, const ob::State *) const override {}
    double distance(const ob::State *, const ob::State *) const override { return 0; }
    bool equalStates(const ob::State *, const ob::State *) const override { return false; }
    // ambient interpolation leaves the manifold: the result is a fresh, unmarked state
    void interpolate(const ob::State *, const ob::State *, double, ob::State *o) const override
    {
        ++g_iter;
        if (g_iter > KMAX) VT_ASSUME(0);            // traversals longer than KMAX steps are outside the claim (stated)
        static_cast<Inner *>(o)->id = g_nextid++; static_cast<Inner *>(o)->on = 0;
        g_scratch_iter = g_iter;
    }
    ob::StateSamplerPtr allocDefaultStateSampler() const override { return ob::StateSamplerPtr(); }
    ob::State *allocState() const override { return nullptr; }
    void freeState(ob::State *) const override {}
};
struct StubConstraint : ob::Constraint
{
    StubConstraint() : ob::Constraint(1, 1) {}
    void function(const Eigen::Ref<const Eigen::VectorXd> &, Eigen::Ref<Eigen::VectorXd>) const override {}
    bool project(ob::State *s) const override { bool ok = vt_nondet_bool(); if (ok) static_cast<TState *>(s)->inner.on = 1; return ok; }
};
// the space under test with its distance replaced by the environment's symbolic values
struct PSS : ob::ProjectedStateSpace
{
    PSS() : ob::ProjectedStateSpace(ob::StateSpacePtr(), ob::ConstraintPtr()) {}
    // plain tagged states instead of the wrapper state type (allocation/copy are not what is being checked)
    ob::State *allocState() const override { if (g_alloc >= POOL) { g_over = 1; return &g_pool[0]; } TState *s = new (&g_pool[g_alloc++]) TState(); return s; }   // (static constructors do not run under CBMC: construct here)
    void freeState(ob::State *) const override { ++g_free; }
    void copyState(ob::State *d, const ob::State *s) const override { static_cast<TState *>(d)->inner.id = static_cast<const TState *>(s)->inner.id; static_cast<TState *>(d)->inner.on = static_cast<const TState *>(s)->inner.on; }
    double distance(const ob::State *a, const ob::State *b) const override
    {
        const Inner *x = &static_cast<const TState *>(a)->inner, *y = &static_cast<const TState *>(b)->inner;
        if (y->id == 2) return x->id == 1 ? g_d0 : (x->on ? g_dto[g_scratch_iter] : g_dto_pre[g_scratch_iter]);   // distance to the target
        return y->on ? g_step[g_scratch_iter] : g_step_pre[g_scratch_iter];                                                                                                   // step length previous -> scratch
    }
};
VT_DECLARE_VTABLE(PSS, "_ZTV3PSS")
VT_DECLARE_VTABLE(StubConstraint, "_ZTV14StubConstraint")
extern "C" void vt_force_vtable() { PSS *p = new PSS(); StubConstraint *c = new StubConstraint(); (void)p; (void)c; }
struct StubSVC : ob::StateValidityChecker
{
    StubSVC() : ob::StateValidityChecker((ob::SpaceInformation *)nullptr) {}
    bool isValid(const ob::State *) const override { return vt_nondet_bool(); }
};
alignas(16) static char w_buf[sizeof(Wrapped)], c_buf[sizeof(StubConstraint)], svc_buf[sizeof(StubSVC)];
union PH { PSS p; char raw[sizeof(PSS)]; PH() {} ~PH() {} };
static PH g_ph;
static vt::SIBuf g_si;
static PSS *setup()
{
    std::memset(g_ph.raw, 0, sizeof g_ph.raw);
    PSS *p = &g_ph.p;
    *(void ***)p = &vt_vtbl_PSS[2];
    vt::set_raw(*const_cast<ob::StateSpacePtr *>(&p->space_), (ob::StateSpace *)new (w_buf) Wrapped());
    vt::set_raw(*const_cast<ob::ConstraintPtr *>(&p->constraint_), (ob::Constraint *)VT_RAW_OBJECT(StubConstraint, StubConstraint, c_buf));
    g_si.init(p, new (svc_buf) StubSVC());
    p->si_ = g_si.si();
    g_delta = vt_double_in(1e-6, 10.0); g_lambda = vt_double_in(1.0, 10.0);
    p->delta_ = g_delta; p->lambda_ = g_lambda;
    g_d0 = vt_double_in(0.0, 1e6);
    for (int i = 0; i <= KMAX + 1; ++i) { g_step[i] = vt_double_in(0.0, 1e6); g_dto[i] = vt_double_in(0.0, 1e6); g_step_pre[i] = vt_double_in(0.0, 1e6); g_dto_pre[i] = vt_double_in(0.0, 1e6); }
    return p;
}
extern "C" void harness_discrete_geodesic()
{
    PSS *p = setup();
    TState from, to;
    from.inner.id = 1; from.inner.on = 1; to.inner.id = 2; to.inner.on = 1;
    std::vector<ob::State *> geo;
    bool interp = vt_nondet_bool();
    bool ok = p->ob::ProjectedStateSpace::discreteGeodesic(&from, &to, interp, &geo);
    VT_CHECK(!g_over, "state pool suffices (bound of the harness)");
    VT_CHECK(geo.size() >= 1 && geo.size() <= KMAX + 1, "the geodesic starts with a copy of the start state");
    VT_CHECK(static_cast<TState *>(geo[0])->inner.id == 1, "first geodesic state is the start state");
    int lastIter = 0;
    for (unsigned i = 1; i <= KMAX; ++i)
        if (i < geo.size())
        {
            const Inner *s = &static_cast<const TState *>(geo[i])->inner;
            VT_CHECK(s->on == 1, "every state stored on the geodesic was projected onto the manifold");
            VT_CHECK(s->id == 10 + (int)i - 1, "geodesic states are the successive projected steps, in order");
            VT_CHECK(g_step[i] <= g_lambda * g_delta, "consecutive geodesic states are no farther apart than lambda*delta");
            lastIter = (int)i;
        }
    if (ok)
    {
        double finalDist = geo.size() == 1 ? g_d0 : g_dto[lastIter];
        VT_CHECK(finalDist <= g_delta, "a geodesic that reports success ends within one step size of the target");
        vt_cover("geodesic succeeded");
    }
    VT_CHECK(g_alloc - g_free == (int)geo.size(), "only the returned states stay allocated");
    vt_cover("discrete geodesic end");
}
#ifndef NG
#define NG 3
#endif
extern "C" void harness_geodesic_interpolate()
{
    PSS *p = setup();
    std::vector<ob::State *> geo;
    static TState gs[NG];
    for (int i = 0; i < NG; ++i) { gs[i].inner.id = 10 + i; gs[i].inner.on = 1; geo.push_back(&gs[i]); }
    // consecutive distances: g_step[g_scratch_iter] is what distance() returns; make them differ per pair through ids
    g_scratch_iter = 1;
    double t = vt_double_in(0.0, 1.0);
    ob::State *r = p->ob::ConstrainedStateSpace::geodesicInterpolate(geo, t);
    bool member = false;
    for (int i = 0; i < NG; ++i) member = member || r == &gs[i];
    VT_CHECK(member, "geodesicInterpolate returns a state of the geodesic for every t in [0,1] (no index out of range)");
    vt_cover("geodesic interpolate end");
}
