// C19: asking a termination condition to terminate from another thread while its evaluation thread is running.
// Thread A = the real periodicEval() worker loop (the body std::thread would run), thread B = terminate(); see vt_seq.h.
#include "vt_seq.h"
#include "ompl/base/src/PlannerTerminationCondition.cpp"
#include <cstring>
#include <time.h>
namespace ob = ompl::base;
typedef ob::PlannerTerminationCondition::PlannerTerminationConditionImpl Impl;
void ompl::msg::log(const char *, int, LogLevel, const char *, ...) {}
static Impl *g_impl;
static unsigned char g_pred[3];
static int g_pred_calls, g_sleeps;
// environment: the worker's sleep returns at once; after the second sleep the owner asks the worker to stop (destructor)
extern "C" int nanosleep(const struct timespec *, struct timespec *)
{
    if (++g_sleeps >= 2) g_impl->signalThreadStop_ = true;
    return 0;
}
static void vt_seq_other() { g_impl->terminate(); }
extern "C" void harness_terminate_vs_worker()
{
    alignas(16) static char impl_buf[sizeof(Impl)];
    std::memset(impl_buf, 0, sizeof impl_buf);
    g_impl = reinterpret_cast<Impl *>(impl_buf);
    for (int i = 0; i < 3; ++i) g_pred[i] = nondet_uchar() & 1;
    new (&g_impl->fn_) ob::PlannerTerminationConditionFn([] { int k = g_pred_calls < 2 ? g_pred_calls : 2; ++g_pred_calls; return g_pred[k] != 0; });
    g_impl->period_ = 0.001;               // one sleep per evaluation
    g_impl->terminate_ = false;
    new (&g_impl->evalValue_) std::atomic<bool>(false);
    g_impl->signalThreadStop_ = false;
    vt_seq_run([] { g_impl->periodicEval(); });
    VT_CHECK(g_impl->eval(), "once terminate() was requested from another thread the condition reports true");
    VT_CHECK(g_impl->eval(), "and keeps reporting true");
    if (vt_seq_switched_at && g_pred_calls >= 1) vt_cover("terminate() arrived while the worker was evaluating");
    vt_cover("terminate vs worker end");
}
