// C19: two threads use one object of the documented thread-safe surface at once (real code, every interleaving of the
// IR-level loads and stores under sequential consistency - see vt/stubs/threads.c).
#include "vt_ompl.h"
#include "ompl/base/DiscreteMotionValidator.h"
VT_CUT_STATESPACE_CTOR
#include "vt_seq.h"
struct TState : ob::State { int tag; };
static unsigned char g_valid[2];
struct StubSpace : ob::StateSpace
{
    unsigned int getDimension() const override { return 1; }
    double getMaximumExtent() const override { return 1; }
    double getMeasure() const override { return 1; }
    void enforceBounds(ob::State *) const override {}
    bool satisfiesBounds(const ob::State *) const override { return true; }
    void copyState(ob::State *, const ob::State *) const override {}
    double distance(const ob::State *, const ob::State *) const override { return 0; }
    bool equalStates(const ob::State *, const ob::State *) const override { return false; }
    unsigned int validSegmentCount(const ob::State *, const ob::State *) const override { return 1; }
    void interpolate(const ob::State *, const ob::State *, double, ob::State *) const override {}
    ob::StateSamplerPtr allocDefaultStateSampler() const override { return ob::StateSamplerPtr(); }
    ob::State *allocState() const override { return nullptr; }
    void freeState(ob::State *) const override {}
};
struct StubSVC : ob::StateValidityChecker
{
    StubSVC() : ob::StateValidityChecker((ob::SpaceInformation *)nullptr) {}
    bool isValid(const ob::State *s) const override { return g_valid[static_cast<const TState *>(s)->tag]; }   // a pure, thread-safe checker
};
alignas(16) static char sp_buf[sizeof(StubSpace)], svc_buf[sizeof(StubSVC)], mv_buf[sizeof(ob::DiscreteMotionValidator)];
static vt::SIBuf g_si;
static ob::DiscreteMotionValidator *g_mv;
static TState g_a, g_b[2];
static bool g_r[2];
static void vt_seq_other() { g_r[1] = g_mv->checkMotion(&g_a, &g_b[1]); }
extern "C" void harness_motion_counters()
{
    g_si.init(new (sp_buf) StubSpace(), new (svc_buf) StubSVC());
    g_mv = new (mv_buf) ob::DiscreteMotionValidator(g_si.si());
    g_a.tag = 0; g_b[0].tag = 0; g_b[1].tag = 1;
    g_valid[0] = nondet_uchar() & 1; g_valid[1] = nondet_uchar() & 1;
    vt_seq_run([] { g_r[0] = g_mv->checkMotion(&g_a, &g_b[0]); });
    if (vt_seq_switched_at) vt_cover("the other thread ran in the middle of the first one's motion check");
    VT_CHECK(g_r[0] == (g_valid[0] != 0) && g_r[1] == (g_valid[1] != 0), "concurrent motion checks return the verdict of a sequential run");
    VT_CHECK(g_mv->valid_ + g_mv->invalid_ == 2, "after two concurrent motion checks the motion counters add up to the number of calls made");
    VT_CHECK(g_mv->valid_ == (unsigned)(g_valid[0] + g_valid[1]), "the valid-motion counter equals the number of valid motions checked");
    vt_cover("both threads finished");
}
