// C10: NearestNeighborsGNAT<int> - inductive steps on ONE tree node from an arbitrary node state.
// The invariant that makes GNAT exact ("the range tables are conservative"): for every child i of a node and every
// sibling subtree k, minRange_i[k] <= d(pivot_i, y) <= maxRange_i[k] for every element y stored in subtree k (its pivot
// included), and minRadius_k <= d(pivot_k, y) <= maxRadius_k for every non-pivot element y of subtree k.
//   harness_visit_r / harness_visit_k : one visit of an internal node by the real Node::nearestR / Node::nearestK from an
//       arbitrary state satisfying the invariant, under EVERY metric distance table: no element that belongs to the answer
//       is lost (its pivot is reported / its subtree is queued), nothing is reported or queued twice.
//   harness_add : the real Node::add on an internal node re-establishes the invariant for the new element and only widens
//       the tables (so it is preserved for every old element).
// ids: 0 = query/new element, 1..SZ = pivots of the children, SZ+1 = an arbitrary element x of subtree J (J symbolic).
#include "vt.h"
#include <cstring>
#include "ompl/datastructures/NearestNeighborsGNAT.h"
#ifndef SZ
#define SZ 3
#endif
#define NID (SZ + 2)
#define XID (SZ + 1)
typedef ompl::NearestNeighborsGNAT<int> G;
typedef G::Node Node;
static double g_D[NID][NID];
static double dist(const int &a, const int &b) { return g_D[(unsigned)a % NID][(unsigned)b % NID]; }
union GH { G g; char raw[sizeof(G)]; GH() {} ~GH() {} };
union NH { Node n; NH() {} ~NH() {} };
static GH g_g;
static NH g_par, g_ch[SZ];
static Node *g_carr[SZ + 1];
static int g_q = 0;
static unsigned g_J;
static double smallv() { return (double)(nondet_uchar() & 7); }

static void setup()
{
    std::memset(g_g.raw, 0, sizeof g_g.raw);
    new (&g_g.g.distFun_) G::DistanceFunction(dist);
#ifdef OFFSET
    g_g.g.offset_ = OFFSET;          // case split: the rotation offset of the child order (symbolic indices into the child array explode)
#else
    g_g.g.offset_ = nondet_uchar() & 7;
#endif
    g_g.g.maxNumPtsPerLeaf_ = 50; g_g.g.degree_ = SZ; g_g.g.minDegree_ = 2; g_g.g.maxDegree_ = 6; g_g.g.rebuildSize_ = ~(std::size_t)0;
    // EVERY metric on the ids: symmetric, zero diagonal, integer values 0..7, triangle inequality
#pragma clang loop unroll(full)
    for (int i = 0; i < NID; ++i)
    {
        g_D[i][i] = 0;
#pragma clang loop unroll(full)
        for (int j = 0; j < i; ++j) { g_D[i][j] = smallv(); g_D[j][i] = g_D[i][j]; }
    }
#pragma clang loop unroll(full)
    for (int i = 0; i < NID; ++i)
#pragma clang loop unroll(full)
        for (int j = 0; j < NID; ++j)
#pragma clang loop unroll(full)
            for (int k = 0; k < NID; ++k) __CPROVER_assume(g_D[i][k] <= g_D[i][j] + g_D[j][k]);
    new (&g_par.n) Node(SZ, 4, 99);
#ifdef JSUB
    g_J = JSUB;                     // case split: the subtree that holds the element x
#else
    g_J = nondet_uchar() % SZ;
#endif
#pragma clang loop unroll(full)
    for (int i = 0; i < SZ; ++i)
    {
        Node *c = new (&g_ch[i].n) Node(SZ, 8, i + 1);
        g_carr[i] = c;
        c->minRadius_ = smallv(); c->maxRadius_ = smallv();
#pragma clang loop unroll(full)
        for (int k = 0; k < SZ; ++k)
        {
            c->minRange_[k] = smallv(); c->maxRange_[k] = (double)(nondet_uchar() & 15);
            // invariant: the ranges of child i towards sibling k cover sibling k's pivot ...
            __CPROVER_assume(c->minRange_[k] <= g_D[i + 1][k + 1] && g_D[i + 1][k + 1] <= c->maxRange_[k]);
        }
    }
    // ... and the element x of subtree J; the radii of child J cover x
#pragma clang loop unroll(full)
    for (int i = 0; i < SZ; ++i)
#pragma clang loop unroll(full)
        for (unsigned k = 0; k < SZ; ++k)
            if (k == g_J) __CPROVER_assume(g_ch[i].n.minRange_[k] <= g_D[i + 1][XID] && g_D[i + 1][XID] <= g_ch[i].n.maxRange_[k]);
#pragma clang loop unroll(full)
    for (unsigned k = 0; k < SZ; ++k)
        if (k == g_J) __CPROVER_assume(g_ch[k].n.minRadius_ <= g_D[k + 1][XID] && g_D[k + 1][XID] <= g_ch[k].n.maxRadius_);
    g_par.n.children_._M_impl._M_start = g_carr; g_par.n.children_._M_impl._M_finish = g_carr + SZ; g_par.n.children_._M_impl._M_end_of_storage = g_carr + SZ;
}
typedef std::pair<double, const int *> NearE;
typedef std::pair<Node *, double> NodeE;
static NearE g_nbuf[SZ + 4];
static NodeE g_qbuf[SZ + 2];
template <typename Q, typename E>
static void fixed_storage(Q &q, E *buf, unsigned cap, unsigned used)
{
    q.c._M_impl._M_start = buf; q.c._M_impl._M_finish = buf + used; q.c._M_impl._M_end_of_storage = buf + cap;
}
template <typename Q>
static void release(Q &q) { q.c._M_impl._M_start = q.c._M_impl._M_finish = q.c._M_impl._M_end_of_storage = nullptr; }
static int count_near(const G::NearQueue &q, const int *p, unsigned cap)
{
    int c = 0;
#pragma clang loop unroll(full)
    for (unsigned i = 0; i < SZ + 4; ++i) if (i < cap && i < q.c.size() && q.c[i].second == p) ++c;
    return c;
}
static int count_node(const G::NodeQueue &q, const Node *p)
{
    int c = 0;
#pragma clang loop unroll(full)
    for (unsigned i = 0; i < SZ + 2; ++i) if (i < q.c.size() && q.c[i].first == p) ++c;
    return c;
}

extern "C" void harness_visit_r()
{
    setup();
    double r = smallv();
    G::NearQueue nbh; G::NodeQueue nq;
    fixed_storage(nbh, g_nbuf, SZ + 4, 0); fixed_storage(nq, g_qbuf, SZ + 2, 0);
    g_par.n.nearestR(g_g.g, g_q, r, nbh, nq);
    VT_CHECK(nbh.c.size() <= SZ && nq.c.size() <= SZ, "a node visit reports at most its pivots and queues at most its children");
#pragma clang loop unroll(full)
    for (int i = 0; i < SZ; ++i)
    {
        int c = count_near(nbh, &g_ch[i].n.pivot_, SZ + 4);
        VT_CHECK(c == (g_D[0][i + 1] <= r ? 1 : 0), "radius query: a pivot is reported exactly once if it lies within the radius (boundary included), never otherwise");
        VT_CHECK(count_node(nq, &g_ch[i].n) <= 1, "no subtree is queued twice");
    }
#pragma clang loop unroll(full)
    for (unsigned k = 0; k < SZ; ++k)
        if (k == g_J && g_D[0][XID] <= r)
        {
            VT_CHECK(count_node(nq, &g_ch[k].n) == 1, "radius query: a subtree holding an element within the radius (boundary included) is never pruned");
            vt_cover("an element of a subtree lies within the radius");
        }
#pragma clang loop unroll(full)
    for (unsigned i = 0; i < SZ + 4; ++i)
        if (i < nbh.c.size()) VT_CHECK(nbh.c[i].first <= r && nbh.c[i].first == g_D[0][*nbh.c[i].second], "every reported neighbour carries its true distance, within the radius");
    if (nq.c.size() < SZ) vt_cover("a subtree was pruned");
    release(nbh); release(nq);
    vt_cover("visit_r end");
}

#ifndef KNN
#define KNN 2
#endif
static int g_old[2] = {XID, XID};      // earlier neighbours already in the queue (elements that are not pivots of this node)
extern "C" void harness_visit_k()
{
    setup();
    G::NearQueue nbh; G::NodeQueue nq;
#ifdef HAVE
    unsigned have = HAVE;                                 // case split: neighbours found before this visit
#else
    unsigned have = nondet_uchar() % (KNN + 1);          // neighbours found before this visit
#endif
    double d0 = smallv(), d1 = smallv();
    __CPROVER_assume(d0 >= d1);                           // max-heap order of the two-element queue
    g_nbuf[0] = NearE(d0, &g_old[0]); g_nbuf[1] = NearE(d1, &g_old[1]);
    fixed_storage(nbh, g_nbuf, SZ + 4, have); fixed_storage(nq, g_qbuf, SZ + 2, 0);
    bool isPivot = vt_nondet_bool();
    g_par.n.nearestK(g_g.g, g_q, KNN, nbh, nq, isPivot);
    VT_CHECK(nbh.c.size() <= KNN && nbh.c.size() >= have, "k-nearest: the queue never holds more than k neighbours and never shrinks");
    bool full = nbh.c.size() == KNN;
    double top = full ? nbh.c[0].first : 1e300;
#pragma clang loop unroll(full)
    for (unsigned i = 0; i < KNN; ++i)
        if (i < nbh.c.size()) VT_CHECK(nbh.c[i].first <= nbh.c[0].first, "the queue top is the farthest of the neighbours kept");
#pragma clang loop unroll(full)
    for (int i = 0; i < SZ; ++i)
    {
        int c = count_near(nbh, &g_ch[i].n.pivot_, KNN);
        VT_CHECK(c <= 1, "no pivot is kept twice");
        VT_CHECK(c == 1 || g_D[0][i + 1] >= top, "k-nearest: a pivot closer than the k-th neighbour kept is itself kept");
        if (c == 1) VT_CHECK(g_D[0][i + 1] <= top, "a kept pivot is not farther than the queue top");
        VT_CHECK(count_node(nq, &g_ch[i].n) <= 1, "no subtree is queued twice");
        if (!full) VT_CHECK(count_node(nq, &g_ch[i].n) == 1, "while fewer than k neighbours are known no subtree may be pruned");
    }
#pragma clang loop unroll(full)
    for (unsigned k = 0; k < SZ; ++k)
        if (k == g_J && g_D[0][XID] <= top)
        {
            // (not farther, ties included: remove() relies on reaching the element that IS the key among equal-distance ones)
            VT_CHECK(count_node(nq, &g_ch[k].n) == 1, "k-nearest: a subtree holding an element not farther than the k-th neighbour kept is never pruned");
            if (full) vt_cover("a subtree element would improve a full queue");
        }
    if (nq.c.size() < SZ) vt_cover("a subtree was pruned (k)");
    release(nbh); release(nq);
    vt_cover("visit_k end");
}

static int g_dbuf[SZ][8];
extern "C" void harness_add()
{
    setup();
    double minR[SZ][SZ], maxR[SZ][SZ], minRad[SZ], maxRad[SZ];
#pragma clang loop unroll(full)
    for (int i = 0; i < SZ; ++i)
    {
        minRad[i] = g_ch[i].n.minRadius_; maxRad[i] = g_ch[i].n.maxRadius_;
        g_ch[i].n.data_._M_impl._M_start = g_dbuf[i]; g_ch[i].n.data_._M_impl._M_finish = g_dbuf[i]; g_ch[i].n.data_._M_impl._M_end_of_storage = g_dbuf[i] + 8;   // leaves with room
#pragma clang loop unroll(full)
        for (int k = 0; k < SZ; ++k) { minR[i][k] = g_ch[i].n.minRange_[k]; maxR[i][k] = g_ch[i].n.maxRange_[k]; }
    }
    g_g.g.size_ = 5;
    g_g.g.maxNumPtsPerLeaf_ = ~0u;                 // leaves never split in this step (split/k-centers are not part of the claim)
    g_par.n.add(g_g.g, g_q);                      // element 0 is added below this internal node
    VT_CHECK(g_g.g.size_ == 6, "add increases the size by one");
    int where = -1, total = 0;
#pragma clang loop unroll(full)
    for (int i = 0; i < SZ; ++i)
    {
        unsigned n = g_ch[i].n.data_.size();
        total += (int)n;
        if (n == 1 && g_ch[i].n.data_[0] == 0) where = i;
    }
    VT_CHECK(total == 1 && where >= 0, "the element is stored in exactly one child");
#pragma clang loop unroll(full)
    for (int m = 0; m < SZ; ++m)
        if (m == where)
        {
#pragma clang loop unroll(full)
            for (int i = 0; i < SZ; ++i)
            {
                VT_CHECK(g_D[0][m + 1] <= g_D[0][i + 1], "the element goes to the child with the closest pivot");
                VT_CHECK(g_ch[i].n.minRange_[m] <= g_D[0][i + 1] && g_D[0][i + 1] <= g_ch[i].n.maxRange_[m], "after add every sibling's range towards the receiving child covers the new element");
            }
            VT_CHECK(g_ch[m].n.minRadius_ <= g_D[0][m + 1] && g_D[0][m + 1] <= g_ch[m].n.maxRadius_, "after add the radius interval of the receiving child covers the new element");
        }
#pragma clang loop unroll(full)
    for (int i = 0; i < SZ; ++i)
    {
        VT_CHECK(g_ch[i].n.minRadius_ <= minRad[i] && g_ch[i].n.maxRadius_ >= maxRad[i], "add only widens radius intervals");
#pragma clang loop unroll(full)
        for (int k = 0; k < SZ; ++k) VT_CHECK(g_ch[i].n.minRange_[k] <= minR[i][k] && g_ch[i].n.maxRange_[k] >= maxR[i][k], "add only widens range intervals");
        g_ch[i].n.data_._M_impl._M_start = g_ch[i].n.data_._M_impl._M_finish = g_ch[i].n.data_._M_impl._M_end_of_storage = nullptr;
    }
    vt_cover("add end");
}
