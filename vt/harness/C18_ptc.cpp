// C18: termination conditions (sequential semantics).  The real PlannerTerminationCondition.cpp is included so that the
// private implementation class is visible; the clock, logging and ProblemDefinition::hasExactSolution are stubs.
#include "vt.h"
#include "ompl/base/src/PlannerTerminationCondition.cpp"
#include "ompl/base/terminationconditions/IterationTerminationCondition.h"
#include "ompl/base/terminationconditions/CostConvergenceTerminationCondition.h"
#include "ompl/base/ProblemDefinition.h"
#include <cstring>
namespace ob = ompl::base;

// ---- environment
static long g_clock_ns;          // last value handed out
static long g_clock_log[8];
static int g_clock_n;
std::chrono::system_clock::time_point std::chrono::system_clock::now() noexcept
{
    long step = nondet_long();
    __CPROVER_assume(step >= 0 && step <= (1L << 50));
    g_clock_ns += step;           // arbitrary non-decreasing clock
    if (g_clock_n < 8) g_clock_log[g_clock_n] = g_clock_ns;
    ++g_clock_n;
    return time_point(duration(g_clock_ns));
}
void ompl::msg::log(const char *, int, LogLevel, const char *, ...) {}
static unsigned char g_has, g_approx;
bool ompl::base::ProblemDefinition::hasSolution() const { return g_has != 0; }
bool ompl::base::ProblemDefinition::hasApproximateSolution() const { return g_approx != 0; }

static unsigned char g_p1, g_p2, g_p3;
static int g_calls1;

// L1: iteration counter, one step from an arbitrary counter state
extern "C" void harness_iteration()
{
    unsigned n = nondet_uint(), c0 = nondet_uint();
    VT_ASSUME(c0 <= 0xFFFFFFF0u);
    ob::IterationTerminationCondition itc(n);
    itc.timesCalled_ = c0;        // c0 evaluations have already happened
    for (unsigned k = 1; k <= 3; ++k)
        VT_CHECK(itc.eval() == (c0 + k > n), "the j-th evaluation is true exactly when j > n");
    itc.reset();
    VT_CHECK(itc.eval() == (1u > n), "after reset the count restarts");
    vt_cover("iteration end");
}

// L2: iteration condition converted to a PlannerTerminationCondition (through std::function)
extern "C" void harness_iteration_ptc()
{
    unsigned n = nondet_uint();
    VT_ASSUME(n <= 3);
    ob::IterationTerminationCondition itc(n);
    ob::PlannerTerminationCondition ptc = itc;
    ob::PlannerTerminationCondition copy = ptc;
    for (unsigned k = 1; k <= 5; ++k)
    {
        bool r = (k & 1) ? ptc.eval() : copy();   // copies share the counter
        VT_CHECK(r == (k > n), "false for the first n evaluations, true from the (n+1)-th on");
    }
    vt_cover("iteration ptc end");
}

// L2: condition built from a predicate; terminate() is sticky; copies share the request
extern "C" void harness_predicate()
{
    ob::PlannerTerminationCondition ptc([] { ++g_calls1; return g_p1 != 0; });
    ob::PlannerTerminationCondition copy(ptc);
    bool terminated = false;
    for (int k = 0; k < 4; ++k)
    {
        g_p1 = nondet_uchar() & 1;
        if (vt_nondet_bool()) { if (vt_nondet_bool()) ptc.terminate(); else copy.terminate(); terminated = true; }
        bool r = vt_nondet_bool() ? ptc.eval() : copy();
        VT_CHECK(r == (terminated || g_p1), "true exactly when the predicate is, or terminate() was requested");
        if (terminated) vt_cover("evaluated after terminate");
    }
    vt_cover("predicate end");
}

extern "C" void harness_constants()
{
    ob::PlannerTerminationCondition never = ob::plannerNonTerminatingCondition();
    ob::PlannerTerminationCondition always = ob::plannerAlwaysTerminatingCondition();
    for (int k = 0; k < 3; ++k)
    {
        VT_CHECK(!never(), "never-terminating condition is false");
        VT_CHECK(always(), "always-terminating condition is true");
    }
    never.terminate();
    VT_CHECK(never(), "terminate() overrides the never-terminating condition");
    vt_cover("constants end");
}

// L3: or / and of two predicate conditions (and one nesting level more)
extern "C" void harness_or_and()
{
    ob::PlannerTerminationCondition a([] { return g_p1 != 0; });
    ob::PlannerTerminationCondition b([] { return g_p2 != 0; });
    ob::PlannerTerminationCondition o = ob::plannerOrTerminationCondition(a, b);
    ob::PlannerTerminationCondition d = ob::plannerAndTerminationCondition(a, b);
    bool ta = false, tb = false;
    for (int k = 0; k < 2; ++k)
    {
        g_p1 = nondet_uchar() & 1; g_p2 = nondet_uchar() & 1;
        if (vt_nondet_bool()) { a.terminate(); ta = true; }
        if (vt_nondet_bool()) { b.terminate(); tb = true; }
        bool va = ta || g_p1, vb = tb || g_p2;
        VT_CHECK(o() == (va || vb), "or-combination is true exactly when either operand is");
        VT_CHECK(d() == (va && vb), "and-combination is true exactly when both operands are");
    }
    vt_cover("or/and end");
}
extern "C" void harness_nested()
{
    ob::PlannerTerminationCondition a([] { return g_p1 != 0; });
    ob::PlannerTerminationCondition b([] { return g_p2 != 0; });
    ob::PlannerTerminationCondition c([] { return g_p3 != 0; });
    ob::PlannerTerminationCondition x = ob::plannerOrTerminationCondition(ob::plannerAndTerminationCondition(a, b), c);
    ob::PlannerTerminationCondition y = ob::plannerAndTerminationCondition(ob::plannerOrTerminationCondition(a, b), c);
    g_p1 = nondet_uchar() & 1; g_p2 = nondet_uchar() & 1; g_p3 = nondet_uchar() & 1;
    VT_CHECK(x() == ((g_p1 && g_p2) || g_p3), "(a and b) or c");
    VT_CHECK(y() == ((g_p1 || g_p2) && g_p3), "(a or b) and c");
    x.terminate();
    VT_CHECK(x(), "terminate on a combination is sticky");
    VT_CHECK(y() == ((g_p1 || g_p2) && g_p3), "terminate on one combination does not leak into another");
    vt_cover("nested end");
}

// timed condition against an arbitrary non-decreasing clock; duration = ms milliseconds
extern "C" void harness_timed()
{
#ifdef MS
    unsigned ms = MS;             // case split: the double->duration conversion is then decided by constant folding
#else
    unsigned ms = nondet_uint();
    VT_ASSUME(ms <= 100000000u);
#endif
    double dur = (double)ms / 1000.0;
    ob::PlannerTerminationCondition ptc = ob::timedPlannerTerminationCondition(dur);
    VT_CHECK(g_clock_n == 1, "clock read once at creation");
    long t0 = g_clock_log[0];
    long want_ns = (long)ms * 1000000L;
    bool prev = false;
    for (int k = 1; k <= 3; ++k)
    {
        bool r = ptc();
        long el = g_clock_log[k] - t0;
        if (el > want_ns) VT_CHECK(r, "true once more than the duration has elapsed");
        if (el <= want_ns - 1000) VT_CHECK(!r, "false before the duration has elapsed (1us conversion slack)");
        VT_CHECK(!prev || r, "never reverts to false");
        if (r && !prev) vt_cover("timed fires");
        prev = r;
    }
    vt_cover("timed end");
}

extern "C" void harness_exact_solution()
{
    alignas(16) static char pd_buf[sizeof(ob::ProblemDefinition)];
    ob::ProblemDefinitionPtr pdef;
    void *raw = pd_buf;
    std::memcpy((void *)&pdef, &raw, sizeof raw);     // no control block: copies do no reference counting
    {
        ob::PlannerTerminationCondition ptc = ob::exactSolnPlannerTerminationCondition(pdef);
        for (int k = 0; k < 3; ++k)
        {
            g_has = nondet_uchar() & 1; g_approx = nondet_uchar() & 1;
            VT_CHECK(ptc() == (g_has && !g_approx), "mirrors whether the problem definition holds an exact solution");
        }
    }
    raw = nullptr;
    std::memcpy((void *)&pdef, &raw, sizeof raw);
    vt_cover("exact end");
}

// Impl::eval() from an arbitrary implementation state, including the periodically evaluated form (period_ > 0): the
// evaluation thread itself is not modelled, its cached verdict evalValue_ is a symbolic bit.
extern "C" void harness_impl_eval()
{
    typedef ob::PlannerTerminationCondition::PlannerTerminationConditionImpl Impl;
    alignas(16) static char impl_buf[sizeof(Impl)];
    auto *impl = reinterpret_cast<Impl *>(impl_buf);
    new (&impl->fn_) ob::PlannerTerminationConditionFn([] { return g_p1 != 0; });
    bool periodic = vt_nondet_bool();
    impl->period_ = periodic ? vt_double_in(1e-9, 1e6) : (vt_nondet_bool() ? -1.0 : 0.0);
    impl->terminate_ = false;
    bool cached = vt_nondet_bool();
    new (&impl->evalValue_) std::atomic<bool>(cached);
    g_p1 = nondet_uchar() & 1;
    VT_CHECK(impl->eval() == (periodic ? cached : (g_p1 != 0)), "eval is the predicate, or its cached verdict in the periodic form");
    impl->terminate();
    g_p1 = nondet_uchar() & 1;
    VT_CHECK(impl->eval(), "after terminate() eval is true in the direct and in the periodic form");
    VT_CHECK(impl->eval(), "and stays true");
    if (periodic) vt_cover("periodic form");
    vt_cover("impl eval end");
}

// cost convergence: one step of processNewSolution from an arbitrary (average, count) state
#ifndef WINDOW
#define WINDOW 3
#endif
extern "C" void harness_cost_convergence()
{
    alignas(16) static char impl_buf[sizeof(ob::PlannerTerminationCondition::PlannerTerminationConditionImpl)];
    alignas(16) static char cc_buf[sizeof(ob::CostConvergenceTerminationCondition)];
    auto *impl = reinterpret_cast<ob::PlannerTerminationCondition::PlannerTerminationConditionImpl *>(impl_buf);
    impl->period_ = -1.0;
    impl->terminate_ = false;
    auto *cc = reinterpret_cast<ob::CostConvergenceTerminationCondition *>(cc_buf);
    void *raw = impl;
    std::memcpy((void *)&cc->impl_, &raw, sizeof raw);
#ifdef SMALLCOSTS
    // integer-valued costs/averages (quarter steps) and a table of thresholds keep the float circuits decidable
    static const double eps_tab[4] = {0.0, 0.1, 0.25, 0.5};
    double avg = (double)(nondet_uint() & 1023u) * 0.25, cost = (double)(nondet_uint() & 1023u) * 0.25;
    double eps = eps_tab[nondet_uint() & 3u];
#else
    double avg = vt_double_in(0.0, 1e6), eps = vt_double_in(0.0, 0.5), cost = vt_double_in(0.0, 1e6);
#endif
    size_t seen = nondet_ulong();
    VT_ASSUME(seen <= 1000);
    cc->averageCost_ = avg;
    cc->solutions_ = seen;
    const_cast<size_t &>(cc->solutionsWindow_) = WINDOW;
    const_cast<double &>(cc->epsilon_) = eps;
    cc->processNewSolution(ompl::base::Cost(cost));
    // reference recomputation
    size_t s = seen + 1 < WINDOW ? seen + 1 : WINDOW;
    double navg = ((double)(s - 1) * avg + cost) / (double)s;
    VT_CHECK(cc->solutions_ == seen + 1, "counts every reported solution");
    VT_CHECK(cc->averageCost_ == navg, "moving average over the window");
    bool fire = (s == WINDOW) && navg > (1. - eps) * avg && navg < (1. + eps) * avg;
    VT_CHECK(impl->terminate_ == fire, "fires exactly when the window is full and the average changed by less than the relative threshold");
    if (fire)
    {
        VT_CHECK(cc->eval(), "eval() reports the convergence");   // (the harness object has no predicate to fall back to)
        vt_cover("converged");
    }
    vt_cover("cost end");
}
