// C12: ompl::PDF<int> — one inductive step from an arbitrary valid PDF of N elements (N, K concrete per query).
// Invariant: tree_[0] = weights, tree_[i+1][k] = tree_[i][2k] (+ tree_[i][2k+1] if present), top row has one entry,
// data_[i]->index_ == i.  Weights are symbolic integer-valued doubles in [0, 2^20] so that all sums are exact and the
// invariant can be stated with ==.
#include <vector>
#include "ompl/datastructures/PDF.h"
#include "vt.h"
#ifndef N
#define N 4
#endif
#ifndef K
#define K 0
#endif
#define MAXN (N + 2)
#ifndef WMAX
#define WMAX 7u
#endif
typedef ompl::PDF<int> P;
static P::Element *g_el[MAXN];
static double g_w[MAXN];
static int g_d[MAXN];

#ifdef WSCALE
// tiny (or huge) weights: integer multiples k*WSCALE of a power of two, k <= 7, so sums stay exact
static const double g_wtab[8] = {0 * WSCALE, 1 * WSCALE, 2 * WSCALE, 3 * WSCALE, 4 * WSCALE, 5 * WSCALE, 6 * WSCALE, 7 * WSCALE};
static double nondet_weight()
{
    unsigned u = nondet_uint();
    VT_ASSUME(u <= 7u);
    return g_wtab[u];
}
#else
static double nondet_weight()
{
    unsigned u = nondet_uint();
    VT_ASSUME(u <= WMAX);
    return (double)u;
}
#endif
static void fill(P &p, unsigned n)
{
    p.data_.reserve(MAXN);
    p.tree_.reserve(8);
    for (unsigned i = 0; i < n; ++i)
    {
        g_w[i] = nondet_weight();
        g_d[i] = nondet_int();
        g_el[i] = new P::Element(g_d[i], i);
        p.data_.push_back(g_el[i]);
    }
    if (n == 0) return;
    unsigned sz = n;
    p.tree_.emplace_back();
    p.tree_.back().reserve(MAXN);
    for (unsigned i = 0; i < n; ++i) p.tree_.back().push_back(g_w[i]);
    while (sz > 1)
    {
        unsigned row = p.tree_.size() - 1;
        unsigned nsz = (sz + 1) / 2;
        p.tree_.emplace_back();
        p.tree_.back().reserve(MAXN);
        for (unsigned k = 0; k < nsz; ++k)
        {
            double s = p.tree_[row][2 * k];
            if (2 * k + 1 < sz) s += p.tree_[row][2 * k + 1];
            p.tree_.back().push_back(s);
        }
        sz = nsz;
    }
}
// the representation invariant, for expected weights w[0..n)
static void check_invariant(const P &p, unsigned n, const double *w)
{
    VT_CHECK(p.size() == n, "size equals the number of live elements");
    VT_CHECK(p.empty() == (n == 0), "empty() agrees with size()");
    if (n == 0) { VT_CHECK(p.tree_.empty(), "empty PDF has no tree"); return; }
    VT_CHECK(p.tree_.size() >= 1 && p.tree_[0].size() == n, "leaf row has one weight per element");
    for (unsigned i = 0; i < n; ++i)
    {
        VT_CHECK(p.data_[i]->index_ == i, "element index equals its position");
        VT_CHECK(p.tree_[0][i] == w[i], "leaf weights are the current weights in element order");
    }
    unsigned sz = n, row = 0;
    while (sz > 1)
    {
        unsigned nsz = (sz + 1) / 2;
        VT_CHECK(row + 1 < p.tree_.size() && p.tree_[row + 1].size() == nsz, "row sizes halve");
        for (unsigned k = 0; k < nsz; ++k)
        {
            double s = p.tree_[row][2 * k];
            if (2 * k + 1 < sz) s += p.tree_[row][2 * k + 1];
            VT_CHECK(p.tree_[row + 1][k] == s, "inner node is the sum of its children");
        }
        sz = nsz; ++row;
    }
    VT_CHECK(p.tree_.size() == row + 1, "tree has exactly the rows needed");
}

extern "C" void harness_add()
{
    P p;
    fill(p, N);
    double w = nondet_weight();
    int d = nondet_int();
    P::Element *e = p.add(d, w);
    g_w[N] = w;
    check_invariant(p, N + 1, g_w);
    VT_CHECK(e->data_ == d && e->index_ == N && p.data_[N] == e, "add appends the new element and returns its handle");
    for (unsigned i = 0; i < N; ++i)
    {
        VT_CHECK(p.data_[i] == g_el[i] && g_el[i]->data_ == g_d[i], "existing elements keep their place and data");
        VT_CHECK(p.getWeight(g_el[i]) == g_w[i], "existing weights unchanged by add");
    }
    VT_CHECK(p.getWeight(e) == w, "getWeight returns the added weight");
    vt_cover("add end");
}

extern "C" void harness_update()
{
    P p;
    fill(p, N);
    double w = nondet_weight();
    p.update(g_el[K], w);
    g_w[K] = w;
    check_invariant(p, N, g_w);
    for (unsigned i = 0; i < N; ++i)
    {
        VT_CHECK(p.data_[i] == g_el[i] && g_el[i]->data_ == g_d[i], "update moves no element");
        VT_CHECK(p.getWeight(g_el[i]) == g_w[i], "update changes exactly one weight");
        VT_CHECK(p[i] == g_d[i], "operator[] returns the data in element order");
    }
    vt_cover("update end");
}

extern "C" void harness_remove()
{
    P p;
    fill(p, N);
    p.remove(g_el[K]);
    // documented behaviour: the last element takes the place of the removed one
    double w2[MAXN];
    for (unsigned i = 0; i + 1 < N; ++i) w2[i] = g_w[i];
    if (K + 1 < N) w2[K] = g_w[N - 1];
    check_invariant(p, N - 1, w2);
    for (unsigned i = 0; i < N; ++i)
        if (i != K)
        {
            VT_CHECK(g_el[i]->index_ < p.size() && p.data_[g_el[i]->index_] == g_el[i], "surviving handle still identifies its element");
            VT_CHECK(g_el[i]->data_ == g_d[i], "surviving data unchanged");
            VT_CHECK(p.getWeight(g_el[i]) == g_w[i], "surviving element keeps its weight");
        }
    vt_cover("remove end");
}

extern "C" void harness_sample()
{
    P p;
    fill(p, N);
    double r = nondet_double();
    VT_ASSUME(r >= 0.0 && r <= 1.0);
    double total = 0;
    for (unsigned i = 0; i < N; ++i) total += g_w[i];
    int &res = p.sample(r);
    unsigned idx = N;
    for (unsigned i = 0; i < N; ++i)
        if (&res == &g_el[i]->data_) idx = i;
    VT_CHECK(idx < N, "sample returns a stored element");
    double x = r * total;
    double lo = 0;
    for (unsigned i = 0; i < N; ++i)
    {
        double hi = lo + g_w[i];
        if (i == idx)
        {
            if (x > 0)
                VT_CHECK(lo < x && x <= hi, "sampled element's cumulative-weight interval contains r*total");
            else
                VT_CHECK(idx == 0, "r*total == 0 selects the first element");
        }
        lo = hi;
    }
    // (x == 0 with r > 0 means r*total underflowed: denormal-range products are outside the claim)
    if (r > 0.0 && r < 1.0 && total > 0 && x > 0) VT_CHECK(g_w[idx] > 0, "zero-weight element never drawn for 0<r<1");
    if (r > 0.0) vt_cover("sample r>0");
    vt_cover("sample end");
}

extern "C" void harness_clear()
{
    P p;
    fill(p, N);
    p.clear();
    check_invariant(p, 0, g_w);
    double w = nondet_weight();
    P::Element *e = p.add(7, w);
    g_w[0] = w;
    check_invariant(p, 1, g_w);
    VT_CHECK(p.sample(nondet_uchar() & 1 ? 1.0 : 0.5) == 7, "single element always sampled");
    p.remove(e);
    check_invariant(p, 0, g_w);
    vt_cover("clear end");
}
