// C08: valid-state samplers (uniform, Gaussian, obstacle-based, bridge-test, minimum / maximize clearance): a sample
// returned with success is valid and in bounds.  Environment: the base sampler, interpolate() and the motion validator
// hand out fresh state ids (in bounds by their own contracts) whose validity / clearance is a symbolic value per id.
#include "vt_ompl.h"
#include "ompl/base/samplers/UniformValidStateSampler.h"
#include "ompl/base/samplers/GaussianValidStateSampler.h"
#include "ompl/base/samplers/ObstacleBasedValidStateSampler.h"
#include "ompl/base/samplers/BridgeTestValidStateSampler.h"
#include "ompl/base/samplers/MinimumClearanceValidStateSampler.h"
#include "ompl/base/samplers/MaximizeClearanceValidStateSampler.h"
VT_CUT_STATESPACE_CTOR
#ifndef ATT
#define ATT 2
#endif
#define MAXID (8 * ATT + 12)
struct TState : ob::State { int id; };
static unsigned char g_valid[MAXID];
static double g_clear[MAXID];
static int g_next, g_over;
static int fresh(bool forceValid = false)
{
    if (g_next >= MAXID) { g_over = 1; return 0; }
    g_valid[g_next] = forceValid ? 1 : (nondet_uchar() & 1);
    g_clear[g_next] = nondet_double();
    return g_next++;
}
static TState g_pool[6];
static int g_nalloc;
struct StubSpace : ob::StateSpace
{
    unsigned int getDimension() const override { return 1; }
    double getMaximumExtent() const override { return 1; }
    double getMeasure() const override { return 1; }
    void enforceBounds(ob::State *) const override {}
    bool satisfiesBounds(const ob::State *s) const override { int id = static_cast<const TState *>(s)->id; return id >= 0 && id < g_next; }
    void copyState(ob::State *d, const ob::State *s) const override { static_cast<TState *>(d)->id = static_cast<const TState *>(s)->id; }
    double distance(const ob::State *, const ob::State *) const override { return 0; }
    bool equalStates(const ob::State *, const ob::State *) const override { return false; }
    void interpolate(const ob::State *, const ob::State *, double, ob::State *out) const override { static_cast<TState *>(out)->id = fresh(); }
    ob::StateSamplerPtr allocDefaultStateSampler() const override { return ob::StateSamplerPtr(); }
    ob::State *allocState() const override { TState *s = &g_pool[g_nalloc < 5 ? g_nalloc++ : 5]; s->id = -7; return s; }
    void freeState(ob::State *) const override {}
};
struct StubSampler : ob::StateSampler
{
    StubSampler() : ob::StateSampler(nullptr) {}
    void sampleUniform(ob::State *s) override { static_cast<TState *>(s)->id = fresh(); }
    void sampleUniformNear(ob::State *s, const ob::State *, double) override { static_cast<TState *>(s)->id = fresh(); }
    void sampleGaussian(ob::State *s, const ob::State *, double) override { static_cast<TState *>(s)->id = fresh(); }
};
struct StubSVC : ob::StateValidityChecker
{
    StubSVC() : ob::StateValidityChecker((ob::SpaceInformation *)nullptr) {}
    bool isValid(const ob::State *s) const override { int id = static_cast<const TState *>(s)->id; if (id < 0 || id >= MAXID) { g_over = 1; return false; } return g_valid[id]; }
    bool isValid(const ob::State *s, double &dist) const override { int id = static_cast<const TState *>(s)->id; if (id < 0 || id >= MAXID) { g_over = 1; return false; } dist = g_clear[id]; return g_valid[id]; }
    double clearance(const ob::State *s) const override { int id = static_cast<const TState *>(s)->id; return (id < 0 || id >= MAXID) ? 0.0 : g_clear[id]; }
};
struct StubMV : ob::MotionValidator
{
    StubMV() : ob::MotionValidator((ob::SpaceInformation *)nullptr) {}
    bool checkMotion(const ob::State *, const ob::State *s2) const override { return static_cast<const StubSVC *>(nullptr) == nullptr && g_valid[static_cast<const TState *>(s2)->id] && vt_nondet_bool(); }
    // contract (C05): false when the end state is invalid; on failure lastValid.first is a valid in-bounds state of the motion
    bool checkMotion(const ob::State *, const ob::State *s2, std::pair<ob::State *, double> &lastValid) const override
    {
        bool ok = g_valid[static_cast<const TState *>(s2)->id] && vt_nondet_bool();
        if (!ok && lastValid.first != nullptr) static_cast<TState *>(lastValid.first)->id = fresh(true);
        return ok;
    }
};
alignas(16) static char sp_buf[sizeof(StubSpace)], svc_buf[sizeof(StubSVC)], mv_buf[sizeof(StubMV)], ss_buf[sizeof(StubSampler)];
static vt::SIBuf g_si;
VT_DECLARE_VTABLE(SI, "_ZTVN4ompl4base16SpaceInformationE")
VT_DECLARE_VTABLE(StubSampler, "_ZTV11StubSampler")
extern "C" void vt_force_vtable() { StubSampler *p = new StubSampler(); (void)p; }
union SamplerHolder
{
    ob::UniformValidStateSampler u; ob::GaussianValidStateSampler g; ob::ObstacleBasedValidStateSampler o;
    ob::BridgeTestValidStateSampler b; ob::MinimumClearanceValidStateSampler mn; ob::MaximizeClearanceValidStateSampler mx;
    SamplerHolder() {} ~SamplerHolder() {}
};
static SamplerHolder g_h;
#ifndef KIND
#define KIND 0
#endif
#ifndef NEAR
#define NEAR 0
#endif
extern "C" void harness_valid_sampler()
{
    auto *sp = new (sp_buf) StubSpace();
    auto *svc = new (svc_buf) StubSVC();
    auto *mv = new (mv_buf) StubMV();
    StubSampler *ss = VT_RAW_OBJECT(StubSampler, StubSampler, ss_buf);   // constructor skipped (it would seed a random engine)
    g_si.init(sp, svc, mv, &vt_vtbl_SI[2]);
    TState out, near;
    out.id = -3;
    near.id = fresh(true);
    double dist = vt_double_in(0.0, 1e6);
    bool ok;
#define SETUP(obj) do { (obj).si_ = g_si.si(); (obj).attempts_ = ATT; vt::set_raw((obj).sampler_, (ob::StateSampler *)ss); } while (0)
#if KIND == 0
    SETUP(g_h.u);
    ok = NEAR ? g_h.u.ob::UniformValidStateSampler::sampleNear(&out, &near, dist) : g_h.u.ob::UniformValidStateSampler::sample(&out);
#elif KIND == 1
    SETUP(g_h.g); g_h.g.stddev_ = vt_double_in(0.0, 1e6);
    ok = NEAR ? g_h.g.ob::GaussianValidStateSampler::sampleNear(&out, &near, dist) : g_h.g.ob::GaussianValidStateSampler::sample(&out);
#elif KIND == 2
    SETUP(g_h.o);
    ok = NEAR ? g_h.o.ob::ObstacleBasedValidStateSampler::sampleNear(&out, &near, dist) : g_h.o.ob::ObstacleBasedValidStateSampler::sample(&out);
#elif KIND == 3
    SETUP(g_h.b); g_h.b.stddev_ = vt_double_in(0.0, 1e6);
    ok = NEAR ? g_h.b.ob::BridgeTestValidStateSampler::sampleNear(&out, &near, dist) : g_h.b.ob::BridgeTestValidStateSampler::sample(&out);
#elif KIND == 4
    SETUP(g_h.mn); g_h.mn.clearance_ = nondet_double();
    ok = NEAR ? g_h.mn.ob::MinimumClearanceValidStateSampler::sampleNear(&out, &near, dist) : g_h.mn.ob::MinimumClearanceValidStateSampler::sample(&out);
    if (ok) VT_CHECK(!(g_clear[out.id] < g_h.mn.clearance_), "returned state has at least the minimum clearance");
#else
    SETUP(g_h.mx); g_h.mx.improveAttempts_ = ATT; g_h.mx.work_ = sp->allocState();
    ok = NEAR ? g_h.mx.ob::MaximizeClearanceValidStateSampler::sampleNear(&out, &near, dist) : g_h.mx.ob::MaximizeClearanceValidStateSampler::sample(&out);
#endif
    VT_CHECK(!g_over, "environment id budget suffices (bound of the harness)");
    if (ok)
    {
        VT_CHECK(out.id >= 0 && out.id < g_next, "a state returned with success is in bounds (was produced by the space's own sampler/interpolation)");
        VT_CHECK(out.id >= 0 && out.id < MAXID && g_valid[out.id], "a state returned with success is valid");
        vt_cover("success");
    }
    else
        vt_cover("failure");
    vt_cover("valid sampler end");
}
