// CompoundStateSpace / CompoundStateSampler delegation (C06, C07, C08, C09): the real compound code against NC stub
// components that record every call and return symbolic values.
#include "vt_ompl.h"
#include "ompl/base/StateSampler.h"
VT_CUT_STATESPACE_CTOR
#ifndef NC
#define NC 3
#endif
struct TState : ob::State { int comp; int who; int written; };
static double g_d[NC], g_ext[NC], g_w[NC];
static unsigned char g_sat[NC], g_eq[NC];
static int g_calls[NC], g_bad;
static double g_t[NC], g_dist[NC];
static const void *g_ptr[NC];
static int g_mode[NC];
struct StubComp : ob::StateSpace
{
    int idx;
    unsigned int getDimension() const override { return 1; }
    double getMaximumExtent() const override { return g_ext[idx]; }
    double getMeasure() const override { return 1; }
    void chk(const ob::State *s, int who) const { const TState *t = static_cast<const TState *>(s); if (t->comp != idx || t->who != who) g_bad = 1; }
    void enforceBounds(ob::State *s) const override { chk(s, 0); ++g_calls[idx]; static_cast<TState *>(s)->written++; }
    bool satisfiesBounds(const ob::State *s) const override { chk(s, 0); ++g_calls[idx]; return g_sat[idx]; }
    void copyState(ob::State *d, const ob::State *s) const override { chk(d, 2); chk(s, 0); ++g_calls[idx]; static_cast<TState *>(d)->written++; }
    double distance(const ob::State *a, const ob::State *b) const override { chk(a, 0); chk(b, 1); ++g_calls[idx]; return g_d[idx]; }
    bool equalStates(const ob::State *a, const ob::State *b) const override { chk(a, 0); chk(b, 1); ++g_calls[idx]; return g_eq[idx]; }
    void interpolate(const ob::State *a, const ob::State *b, double t, ob::State *o) const override { chk(a, 0); chk(b, 1); chk(o, 2); ++g_calls[idx]; g_t[idx] = t; static_cast<TState *>(o)->written++; }
    unsigned int getSerializationLength() const override { return idx + 1; }
    void serialize(void *p, const ob::State *s) const override { chk(s, 0); ++g_calls[idx]; g_ptr[idx] = p; for (int k = 0; k <= idx; ++k) ((unsigned char *)p)[k] = (unsigned char)(0x10 * (idx + 1) + k); }
    void deserialize(ob::State *s, const void *p) const override { chk(s, 2); ++g_calls[idx]; g_ptr[idx] = p; static_cast<TState *>(s)->written++; }
    ob::StateSamplerPtr allocDefaultStateSampler() const override { return ob::StateSamplerPtr(); }
    ob::State *allocState() const override { return nullptr; }
    void freeState(ob::State *) const override {}
};
struct StubSampler : ob::StateSampler
{
    int idx;
    StubSampler() : ob::StateSampler(nullptr) {}
    void w(ob::State *s, int mode, double d) { TState *t = static_cast<TState *>(s); if (t->comp != idx || t->who != 2) g_bad = 1; t->written++; g_mode[idx] = mode; g_dist[idx] = d; ++g_calls[idx]; }
    void sampleUniform(ob::State *s) override { w(s, 1, 0.0); }
    void sampleUniformNear(ob::State *s, const ob::State *n, double d) override { const TState *t = static_cast<const TState *>(n); if (t->comp != idx || t->who != 0) g_bad = 1; w(s, 2, d); }
    void sampleGaussian(ob::State *s, const ob::State *n, double d) override { const TState *t = static_cast<const TState *>(n); if (t->comp != idx || t->who != 0) g_bad = 1; w(s, 3, d); }
};
VT_DECLARE_VTABLE(COMP, "_ZTVN4ompl4base18CompoundStateSpaceE")
VT_DECLARE_VTABLE(StubSampler, "_ZTV11StubSampler")
extern "C" void vt_force_vtable() { StubSampler *p = new StubSampler(); (void)p; }
alignas(16) static char comp_buf[NC][sizeof(StubComp)], ss_buf[NC][sizeof(StubSampler)];
union CHolder { ob::CompoundStateSpace c; CHolder() {} ~CHolder() {} };
static CHolder g_ch;
union SHolder { ob::CompoundStateSampler s; SHolder() {} ~SHolder() {} };
static SHolder g_sh;
static TState g_st[3][NC];
static ob::State *g_cptr[3][NC];
static ob::CompoundState g_cs[3];
static ob::CompoundStateSpace *setup()
{
    ob::CompoundStateSpace *c = &g_ch.c;
    *(void ***)c = &vt_vtbl_COMP[2];
    new (&c->components_) std::vector<ob::StateSpacePtr>();
    new (&c->weights_) std::vector<double>();
    c->components_.reserve(NC); c->weights_.reserve(NC);
    c->componentCount_ = NC;
    for (int i = 0; i < NC; ++i)
    {
        auto *sc = new (comp_buf[i]) StubComp();
        sc->idx = i;
        ob::StateSpacePtr p;
        vt::set_raw(p, (ob::StateSpace *)sc);
        c->components_.push_back(p);
        void *z = nullptr; std::memcpy((void *)&p, &z, sizeof z);
        g_w[i] = vt_nondet_bool() ? 0.0 : vt_double_in(0.0, 100.0);       // zero-weight subspaces included
        c->weights_.push_back(g_w[i]);
        g_d[i] = vt_double_in(0.0, 1e6); g_ext[i] = vt_double_in(0.0, 1e6);
        g_sat[i] = nondet_uchar() & 1; g_eq[i] = nondet_uchar() & 1;
        for (int k = 0; k < 3; ++k) { g_st[k][i].comp = i; g_st[k][i].who = k; g_st[k][i].written = 0; g_cptr[k][i] = &g_st[k][i]; }
    }
    for (int k = 0; k < 3; ++k) g_cs[k].components = g_cptr[k];
    return c;
}
static bool once() { for (int i = 0; i < NC; ++i) if (g_calls[i] != 1) return false; return true; }
static void reset() { for (int i = 0; i < NC; ++i) g_calls[i] = 0; }

extern "C" void harness_compound_metric()
{
    ob::CompoundStateSpace *c = setup();
    double d = c->ob::CompoundStateSpace::distance(&g_cs[0], &g_cs[1]);
    VT_CHECK(!g_bad && once(), "distance asks every component once, on the matching sub-states");
    double ref = 0.0;
    for (int i = 0; i < NC; ++i) ref = ref + g_w[i] * g_d[i];
    VT_CHECK(vt_same_bits(d, ref), "compound distance is the weighted sum of the component distances");
    reset();
    bool eq = c->ob::CompoundStateSpace::equalStates(&g_cs[0], &g_cs[1]);
    bool req = true;
    for (int i = 0; i < NC; ++i) req = req && g_eq[i];
    VT_CHECK(eq == req && !g_bad, "compound states are equal exactly when every component is");
    double e = c->ob::CompoundStateSpace::getMaximumExtent();
    double re = 0.0;
    for (int i = 0; i < NC; ++i) if (g_w[i] >= 2.220446049250313e-16) re = re + g_w[i] * g_ext[i];
    VT_CHECK(vt_same_bits(e, re), "compound maximum extent is the weighted sum of the component extents");
    vt_cover("compound metric end");
}
extern "C" void harness_compound_bounds()
{
    ob::CompoundStateSpace *c = setup();
    bool s = c->ob::CompoundStateSpace::satisfiesBounds(&g_cs[0]);
    bool rs = true;
    for (int i = 0; i < NC; ++i) rs = rs && g_sat[i];
    VT_CHECK(s == rs && !g_bad, "compound state satisfies the bounds exactly when every component does");
    reset();
    c->ob::CompoundStateSpace::enforceBounds(&g_cs[0]);
    VT_CHECK(!g_bad && once(), "enforceBounds is applied to every component once");
    vt_cover("compound bounds end");
}
extern "C" void harness_compound_interpolate()
{
    ob::CompoundStateSpace *c = setup();
    double t = vt_double_in(0.0, 1.0);
    c->ob::CompoundStateSpace::interpolate(&g_cs[0], &g_cs[1], t, &g_cs[2]);
    VT_CHECK(!g_bad && once(), "interpolate is delegated to every component once, on the matching sub-states");
    for (int i = 0; i < NC; ++i) VT_CHECK(vt_same_bits(g_t[i], t) && g_st[2][i].written == 1, "every component is interpolated with the same parameter");
    vt_cover("compound interpolate end");
}
extern "C" void harness_compound_copy_serialize()
{
    ob::CompoundStateSpace *c = setup();
    c->ob::CompoundStateSpace::copyState(&g_cs[2], &g_cs[0]);
    VT_CHECK(!g_bad && once(), "copyState copies every component once (destination/source matched)");
    reset();
    unsigned len = c->ob::CompoundStateSpace::getSerializationLength();
    VT_CHECK(len == NC * (NC + 1) / 2, "serialization length is the sum of the component lengths");
    unsigned char buf[NC * (NC + 1) / 2 + 2];
    buf[NC * (NC + 1) / 2] = 0x5a;
    c->ob::CompoundStateSpace::serialize(buf, &g_cs[0]);
    VT_CHECK(!g_bad && once(), "serialize visits every component once");
    unsigned off = 0;
    for (int i = 0; i < NC; ++i)
    {
        VT_CHECK(g_ptr[i] == buf + off, "component images are laid out back to back at running offsets");
        for (int k = 0; k <= i; ++k) VT_CHECK(buf[off + k] == (unsigned char)(0x10 * (i + 1) + k), "component images do not overlap");
        off += i + 1;
    }
    VT_CHECK(buf[NC * (NC + 1) / 2] == 0x5a, "serialize writes only its own length");
    reset();
    for (int i = 0; i < NC; ++i) g_st[2][i].written = 0;
    c->ob::CompoundStateSpace::deserialize(&g_cs[2], buf);
    VT_CHECK(!g_bad && once(), "deserialize visits every component once");
    off = 0;
    for (int i = 0; i < NC; ++i) { VT_CHECK(g_ptr[i] == buf + off, "deserialize reads each component at the offset serialize wrote it"); off += i + 1; }
    vt_cover("compound copy/serialize end");
}
#ifndef MODE
#define MODE 2
#endif
extern "C" void harness_compound_sampler()
{
    setup();
    ob::CompoundStateSampler *s = &g_sh.s;
    new (&s->samplers_) std::vector<ob::StateSamplerPtr>();
    new (&s->weightImportance_) std::vector<double>();
    s->samplers_.reserve(NC); s->weightImportance_.reserve(NC);
    for (int i = 0; i < NC; ++i)
    {
        StubSampler *ss = VT_RAW_OBJECT(StubSampler, StubSampler, ss_buf[i]);
        ss->idx = i;
        ob::StateSamplerPtr p;
        vt::set_raw(p, (ob::StateSampler *)ss);
        s->samplers_.push_back(p);
        void *z = nullptr; std::memcpy((void *)&p, &z, sizeof z);
        s->weightImportance_.push_back(g_w[i]);
    }
    s->samplerCount_ = NC;
    double d = vt_double_in(0.0, 1e6);
#if MODE == 1
    s->ob::CompoundStateSampler::sampleUniform(&g_cs[2]);
#elif MODE == 2
    s->ob::CompoundStateSampler::sampleUniformNear(&g_cs[2], &g_cs[0], d);
#else
    s->ob::CompoundStateSampler::sampleGaussian(&g_cs[2], &g_cs[0], d);
#endif
    VT_CHECK(!g_bad, "component samplers get the matching sub-states");
    for (int i = 0; i < NC; ++i)
    {
        VT_CHECK(g_st[2][i].written == 1, "every component of the sampled state is written exactly once (by its own in-bounds sampler)");
#if MODE == 2
        if (g_w[i] > 2.220446049250313e-16) VT_CHECK(g_mode[i] == 2 && vt_same_bits(g_dist[i], d * g_w[i]), "near-sampling scales the distance by the component weight");
        else VT_CHECK(g_mode[i] == 1, "zero-weight components are sampled uniformly");
#elif MODE == 3
        VT_CHECK(g_mode[i] == 3 && vt_same_bits(g_dist[i], d * g_w[i]), "gaussian sampling scales the deviation by the component weight");
#else
        VT_CHECK(g_mode[i] == 1, "uniform sampling samples every component uniformly");
#endif
    }
    vt_cover("compound sampler end");
}
