// C14: word-selection logic of the Dubins distance.  The six word solvers and the long-path classifier test (internal
// functions of DubinsStateSpace.cpp, full of trigonometry) are cut at IR level: every call goes to the stubs below, which
// offer an arbitrary candidate per word (symbolic non-negative segment lengths, or "no solution").
#include "vt.h"
#include "ompl/base/spaces/DubinsStateSpace.h"
namespace ob = ompl::base;
typedef ob::DubinsStateSpace::DubinsPath Path;
Path dubins(double d, double alpha, double beta);     // the selection function of DubinsStateSpace.cpp
static unsigned char g_has[6], g_long;
static double g_seg[6][3];
static int g_calls[6], g_sw;
static void word(int w, Path *out)
{
    ++g_calls[w];
    if (g_has[w]) *out = Path(ob::DubinsStateSpace::dubinsPathType()[w], g_seg[w][0], g_seg[w][1], g_seg[w][2]);
    else *out = Path();                                   // "no solution": infinite-length default path
}
extern "C"
{
    void vt_word_LSL(Path *out, double, double, double) { word(0, out); }
    void vt_word_RSR(Path *out, double, double, double) { word(1, out); }
    void vt_word_RSL(Path *out, double, double, double) { word(2, out); }
    void vt_word_LSR(Path *out, double, double, double) { word(3, out); }
    void vt_word_RLR(Path *out, double, double, double) { word(4, out); }
    void vt_word_LRL(Path *out, double, double, double) { word(5, out); }
    bool vt_is_long_path(double, double, double) { return g_long != 0; }
    // switching functions of the classification table (float trigonometry): arbitrary values, one draw per call
#define SW(n) double vt_sw_##n(double, double, double) { ++g_sw; return nondet_double(); }
    SW(12) SW(13) SW(14_1) SW(21) SW(22_1) SW(22_2) SW(24) SW(31) SW(33_1) SW(33_2) SW(34) SW(41_1) SW(41_2) SW(42) SW(43)
}
extern "C" void harness_word_selection()
{
    (void)ob::DubinsStateSpace::dubinsPathType();        // (function-local static table: initialised by real code on first use)
    for (int w = 0; w < 6; ++w)
    {
        g_has[w] = nondet_uchar() & 1;
        for (int k = 0; k < 3; ++k) g_seg[w][k] = (double)(nondet_uchar() & 15);    // integer-valued: sums are exact
    }
    g_long = LONGPATH;
    double d = vt_double_in(1e-3, 100.0), alpha = vt_double_in(0.0, 6.0), beta = vt_double_in(0.0, 6.0);
    Path p = dubins(d, alpha, beta);
    double best = 1.0 / 0.0;
    bool any = false;
    for (int w = 0; w < 6; ++w)
        if (g_has[w]) { any = true; double L = g_seg[w][0] + g_seg[w][1] + g_seg[w][2]; if (L < best) best = L; }
    bool offered = false;
    for (int w = 0; w < 6; ++w)
        if (g_has[w] && g_calls[w] > 0 && p.type_ == &ob::DubinsStateSpace::dubinsPathType()[w] && p.length_[0] == g_seg[w][0] && p.length_[1] == g_seg[w][1] && p.length_[2] == g_seg[w][2]) offered = true;
#if LONGPATH == 0
    for (int w = 0; w < 6; ++w) VT_CHECK(g_calls[w] == 1, "the exhaustive search evaluates each of the six words once");
    if (any)
    {
        VT_CHECK(offered, "the returned word is one of the candidates the word solvers offered");
        VT_CHECK(p.length() == best, "the Dubins distance is the shortest of the six canonical words");
        vt_cover("a word was selected");
    }
#else
    if (offered) vt_cover("classified word offered");
    int total = 0;
    for (int w = 0; w < 6; ++w) { total += g_calls[w]; VT_CHECK(g_calls[w] <= 1, "the classification evaluates no word twice"); }
    VT_CHECK(total >= 1 && total <= 2 && g_sw <= 2, "the classification evaluates one or two words after at most two switching functions");
    VT_CHECK(g_calls[4] == 0 && g_calls[5] == 0, "long paths are never CCC words");
    VT_CHECK(offered || p.length_[1] > 1e300, "the long-path branch returns a candidate a word solver offered (or the no-solution path)");
    if (total == 2)
    {
        vt_cover("two-candidate class");
        for (int w = 0; w < 4; ++w)
            if (g_calls[w] && g_has[w]) VT_CHECK(p.length() <= g_seg[w][0] + g_seg[w][1] + g_seg[w][2], "a two-candidate class returns the shorter of its two words");
    }
#endif
    vt_cover("word selection end");
}
