// C09: start/goal marks of a planner-data graph (PlannerData::markStartState / markGoalState / isStartVertex /
// isGoalVertex / numStartVertices / numGoalVertices).  The boost graph behind PlannerData is never built: the object is a
// zeroed typed buffer whose state->index map (a real libstdc++ red-black tree, nodes linked by hand) and mark vectors
// (real std::vector, real std::sort / std::binary_search) are the only members the unit reads.
#include "vt_ompl.h"
#include <map>
#include "ompl/base/PlannerData.h"
#ifndef NOPS
#define NOPS 3
#endif
#define NST 3            /* states present in the graph; state NST is not a vertex */
struct TState : ob::State { int id; };
static TState g_st[NST + 1];                  // one array: addresses are ordered like the indices (std::less<State*>)
typedef std::pair<const ob::State *const, unsigned int> KV;
typedef std::_Rb_tree_node<KV> Node;
union PDBuf { ob::PlannerData pd; char raw[sizeof(ob::PlannerData)]; PDBuf() {} ~PDBuf() {} };
static PDBuf g_pd;
union NodeBuf { Node n; char raw[sizeof(Node)]; NodeBuf() {} ~NodeBuf() {} };
static NodeBuf g_node[NST];

extern "C" void harness_marks()
{
    std::memset(g_pd.raw, 0, sizeof g_pd.raw);
    ob::PlannerData &pd = g_pd.pd;
    unsigned idx[NST];
#pragma clang loop unroll(full)
    for (int i = 0; i < NST; ++i)
    {
        g_st[i].id = i;
#ifdef IDXORD
        // case split over the relative order of the three vertex indices (values 2, 5, 7 in the order given by the digits of IDXORD)
        idx[i] = (IDXORD >> (4 * i)) & 7;
#else
        idx[i] = nondet_uchar() & 7;               // arbitrary vertex indices: ANY order relative to the marking order
#pragma clang loop unroll(full)
        for (int j = 0; j < i; ++j) __CPROVER_assume(idx[i] != idx[j]);
#endif
    }
    g_st[NST].id = NST;
    // balanced tree: root = state 1, children = states 0 and 2
    auto &hdr = pd.stateIndexMap_._M_t._M_impl._M_header;
#pragma clang loop unroll(full)
    for (int i = 0; i < NST; ++i)
    {
        std::memset(g_node[i].raw, 0, sizeof(Node));
        new (g_node[i].n._M_valptr()) KV(&g_st[i], idx[i]);
        g_node[i].n._M_color = std::_S_black;
    }
    g_node[1].n._M_parent = &hdr; g_node[1].n._M_left = &g_node[0].n; g_node[1].n._M_right = &g_node[2].n;
    g_node[0].n._M_parent = &g_node[1].n; g_node[2].n._M_parent = &g_node[1].n;
    g_node[0].n._M_color = std::_S_red; g_node[2].n._M_color = std::_S_red;
    hdr._M_color = std::_S_red; hdr._M_parent = &g_node[1].n; hdr._M_left = &g_node[0].n; hdr._M_right = &g_node[2].n;
    pd.stateIndexMap_._M_t._M_impl._M_node_count = NST;

    // the mark vectors get fixed storage (capacity 8 > number of marks): no reallocation happens, sizes stay data-dependent
    static unsigned sbuf[8], gbuf[8];
    pd.startVertexIndices_._M_impl._M_start = pd.startVertexIndices_._M_impl._M_finish = sbuf; pd.startVertexIndices_._M_impl._M_end_of_storage = sbuf + 8;
    pd.goalVertexIndices_._M_impl._M_start = pd.goalVertexIndices_._M_impl._M_finish = gbuf; pd.goalVertexIndices_._M_impl._M_end_of_storage = gbuf + 8;
    unsigned char start_set = 0, goal_set = 0;     // ghost: bit v set <=> vertex index v marked
#pragma clang loop unroll(full)
    for (int k = 0; k < NOPS; ++k)
    {
#ifdef SEQ
        // case split: the k-th hex digit of SEQ fixes which state is marked and as what (vertex indices stay symbolic)
        int s = (SEQ >> (4 * k)) & 3;
        bool goal = ((SEQ >> (4 * k + 2)) & 1) != 0;
#else
        int s = nondet_uchar() & 3;
        bool goal = vt_nondet_bool();
#endif
        bool r = goal ? pd.markGoalState(&g_st[s]) : pd.markStartState(&g_st[s]);
        VT_CHECK(r == (s < NST), "marking succeeds exactly for states that are vertices of the graph");
        if (s < NST) { if (goal) goal_set |= (unsigned char)(1u << idx[s]); else start_set |= (unsigned char)(1u << idx[s]); }
    }
    unsigned probe = nondet_uchar() & 7;
    VT_CHECK(pd.isStartVertex(probe) == (((start_set >> probe) & 1) != 0), "isStartVertex answers true exactly for the vertices marked as start");
    VT_CHECK(pd.isGoalVertex(probe) == (((goal_set >> probe) & 1) != 0), "isGoalVertex answers true exactly for the vertices marked as goal");
    unsigned ns = 0, ng = 0;
#pragma clang loop unroll(full)
    for (int v = 0; v < 8; ++v) { ns += (start_set >> v) & 1; ng += (goal_set >> v) & 1; }
    VT_CHECK(pd.numStartVertices() == ns, "the number of start vertices is the number of distinct vertices marked as start");
    VT_CHECK(pd.numGoalVertices() == ng, "the number of goal vertices is the number of distinct vertices marked as goal");
    if (ng + ns >= 1) vt_cover("a vertex was marked");
#pragma clang loop unroll(full)
    for (unsigned i = 0; i < 3; ++i)
    {
        if (i < ng) VT_CHECK(((goal_set >> pd.getGoalIndex(i)) & 1) != 0, "getGoalIndex enumerates marked goal vertices");
        if (i < ns) VT_CHECK(((start_set >> pd.getStartIndex(i)) & 1) != 0, "getStartIndex enumerates marked start vertices");
    }
    vt_cover("marks end");
}
