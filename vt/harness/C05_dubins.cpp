// C05: DubinsMotionValidator / ReedsSheppMotionValidator::checkMotion (both forms). The curve computation and the
// path-taking interpolate() are environment stubs (a harness subclass overrides the virtual 6-argument interpolate);
// validity is a symbolic bit per subdivision point.
#include <queue>
#include "vt_ompl.h"
#if RS
#include "ompl/base/spaces/ReedsSheppStateSpace.h"
typedef ob::ReedsSheppStateSpace RealSpace;
typedef ob::ReedsSheppStateSpace::ReedsSheppPath PathT;
typedef ob::ReedsSheppMotionValidator Validator;
#else
#include "ompl/base/spaces/DubinsStateSpace.h"
typedef ob::DubinsStateSpace RealSpace;
typedef ob::DubinsStateSpace::DubinsPath PathT;
typedef ob::DubinsMotionValidator Validator;
#endif
// Environment stubs for the curve solvers (overriding the repo definitions at link time): a curve obtained by calling
// the solver directly is NOT marked as the curve interpolate() uses (for a symmetric Dubins space they differ).
#if RS
ob::ReedsSheppStateSpace::ReedsSheppPath ob::ReedsSheppStateSpace::reedsShepp(const ob::State *, const ob::State *) const
{
    ReedsSheppPath p;
    p.length_[1] = 111.0;
    return p;
}
#else
ob::DubinsStateSpace::DubinsPath ob::DubinsStateSpace::dubins(const ob::State *, const ob::State *) const
{
    DubinsPath p;
    p.length_[1] = 111.0;
    return p;
}
ob::DubinsStateSpace::DubinsPath ob::DubinsStateSpace::dubins(const ob::State *, const ob::State *, double)
{
    DubinsPath p;
    p.length_[1] = 111.0;
    return p;
}
#endif
#ifndef ND
#define ND 4
#endif
#define MAXND (ND > 0 ? ND : 1)
struct TState : ob::State { double t; int tag; };
static int g_nd;
static unsigned char g_valid[MAXND + 1], g_seen[MAXND + 1];
static double g_T[MAXND + 1];
static int g_bad, g_alloc, g_free, g_first_calls, g_calls;
static const PathT *g_path;
static TState g_test;
struct StubSp : RealSpace
{
    unsigned int validSegmentCount(const ob::State *, const ob::State *) const override { return g_nd; }
    void interpolate(const ob::State *, const ob::State *, double t, bool &firstTime, PathT &path, ob::State *out) const override
    {
        ++g_calls;
        // the curve the validator samples must be the one interpolate() itself computes (lazily, on the first call)
        if (firstTime) { ++g_first_calls; firstTime = false; g_path = &path; path.length_[1] = 424242.0; }
        else if (g_path != &path || path.length_[1] != 424242.0) g_bad = 1;
        int tag = -1;
        for (int j = 0; j <= MAXND; ++j)
            if (j <= g_nd && t == g_T[j]) tag = j;
        if (tag < 0) g_bad = 1;
        static_cast<TState *>(out)->t = t;
        static_cast<TState *>(out)->tag = tag;
    }
    ob::State *allocState() const override { ++g_alloc; return &g_test; }
    void freeState(ob::State *) const override { ++g_free; }
};
#if RS
VT_DECLARE_VTABLE(StubSp, "_ZTV6StubSp")
#else
VT_DECLARE_VTABLE(StubSp, "_ZTV6StubSp")
#endif
extern "C" void vt_force_vtable() { StubSp *p = new StubSp(); (void)p; }
struct StubSVC : ob::StateValidityChecker
{
    StubSVC() : ob::StateValidityChecker((ob::SpaceInformation *)nullptr) {}
    bool isValid(const ob::State *s) const override
    {
        int tag = static_cast<const TState *>(s)->tag;
        if (tag < 0 || tag > MAXND) { g_bad = 1; return true; }
        if (g_seen[tag] < 200) g_seen[tag]++;
        return g_valid[tag];
    }
};
alignas(16) static char sp_buf[sizeof(StubSp)];
alignas(16) static char svc_buf[sizeof(StubSVC)];
alignas(16) static char mv_buf[sizeof(Validator)];
static vt::SIBuf g_si;

extern "C" void harness_curve_validator()
{
    StubSp *sp = VT_RAW_OBJECT(StubSp, StubSp, sp_buf);
    auto *svc = new (svc_buf) StubSVC();
    g_si.init(sp, svc);
    std::memset(mv_buf, 0, sizeof mv_buf);
    auto *mv = reinterpret_cast<Validator *>(mv_buf);   // constructor skipped (dynamic_cast + exception plumbing)
    mv->si_ = g_si.si();
    mv->stateSpace_ = sp;
    g_nd = ND;
    for (int j = 0; j <= MAXND; ++j)
    {
        g_valid[j] = nondet_uchar() & 1;
        g_seen[j] = 0;
        g_T[j] = (double)j / (double)MAXND;
    }
    TState s1, s2, lv;
    s1.t = 0; s1.tag = 0; s2.t = 1; s2.tag = MAXND; lv.t = -7; lv.tag = -7;   // for nd == 0 (distance-0 pair) the end state still has its own validity bit
    bool expect = true;
    int firstBad = -1;
    for (int j = 1; j <= MAXND; ++j)
        if (!g_valid[j] && firstBad < 0) { expect = false; firstBad = j; }
    bool r2 = mv->Validator::checkMotion(&s1, &s2);
    VT_CHECK(r2 == expect, "fast form: valid exactly when every subdivision point and the end state are valid");
    VT_CHECK(!g_bad, "fast form interpolates only at j/nd points of the curve interpolate() computes");
    if (r2)
    {
        for (int j = 1; j <= MAXND; ++j)
            VT_CHECK(g_seen[j] == 1, "fast form checks every subdivision point exactly once on success");
        vt_cover("fast form valid");
    }
    else
        vt_cover("fast form invalid");
    VT_CHECK(mv->valid_ + mv->invalid_ == 1 && mv->valid_ == (r2 ? 1u : 0u), "fast form advances exactly one counter");
    VT_CHECK(g_alloc == g_free, "fast form frees its temporary state");
    g_calls = g_first_calls = 0;
    unsigned v0 = mv->valid_, i0 = mv->invalid_;
    std::pair<ob::State *, double> last(&lv, -3.0);
    bool r1 = mv->Validator::checkMotion(&s1, &s2, last);
    VT_CHECK(r1 == expect, "lastValid form: same verdict");
    VT_CHECK(r1 == r2, "both forms agree");
    VT_CHECK(!g_bad, "lastValid form interpolates only at j/nd points of the curve interpolate() computes");
    if (r1)
        VT_CHECK(last.second == -3.0 && lv.tag == -7 && lv.t == -7, "lastValid storage untouched on success");
    else
    {
        VT_CHECK(last.second >= 0.0 && last.second < 1.0, "lastValid fraction in [0,1)");
        VT_CHECK(lv.tag == firstBad - 1, "lastValid state is the interpolation just before the first invalid point");
        VT_CHECK(last.second == (double)(firstBad - 1) / (double)MAXND, "lastValid fraction is (j-1)/nd");
        VT_CHECK(lv.t == last.second, "lastValid state is the interpolation at the reported fraction");
    }
    VT_CHECK(mv->valid_ + mv->invalid_ == v0 + i0 + 1 && mv->valid_ == v0 + (r1 ? 1u : 0u), "lastValid form advances exactly one counter");
    VT_CHECK(g_alloc == g_free, "lastValid form frees its temporary state");
    vt_cover("end");
}
