// C15: multi-focus acceptance logic of the direct path-length informed sampler (PathLengthDirectInfSampler::keepSample,
// numberOfPhsInclusions, isInAnyPhs, heuristicSolnCost).  The prolate hyperspheroids are environment stubs: membership of
// the candidate in each PHS and its focal path length through each PHS are symbolic; the uniform draw is recorded.
#include "vt_ompl.h"
#include <list>
#include "ompl/base/samplers/informed/PathLengthDirectInfSampler.h"
#include "ompl/util/ProlateHyperspheroid.h"
#include "ompl/base/goals/GoalSampleableRegion.h"
#include "ompl/base/ProblemDefinition.h"
#include "ompl/base/OptimizationObjective.h"
VT_CUT_STATESPACE_CTOR
void ompl::msg::log(const char *, int, LogLevel, const char *, ...) {}
extern "C" { double vt_last_canonical; }
#ifndef NPHS
#define NPHS 2
#endif
static unsigned char g_in[NPHS];
static double g_len[NPHS];
static int g_bad;
union PhsBuf { ompl::ProlateHyperspheroid p; PhsBuf() {} ~PhsBuf() {} };
static PhsBuf g_phs[NPHS];
static int phs_index(const ompl::ProlateHyperspheroid *p)
{
    int r = -1;
#pragma clang loop unroll(full)
    for (int i = 0; i < NPHS; ++i) if (p == &g_phs[i].p) r = i;
    if (r < 0) { g_bad = 1; r = 0; }
    return r;
}
bool ompl::ProlateHyperspheroid::isInPhs(const double[]) const { return g_in[phs_index(this)] != 0; }
double ompl::ProlateHyperspheroid::getPathLength(const double[]) const { return g_len[phs_index(this)]; }
typedef std::_List_node<ompl::ProlateHyperspheroidPtr> LNode;
union LNodeBuf { LNode n; LNodeBuf() {} ~LNodeBuf() {} };
static LNodeBuf g_ln[NPHS];
static unsigned g_goal_count;
struct StubGoal : ob::GoalSampleableRegion
{
    StubGoal() : ob::GoalSampleableRegion(ob::SpaceInformationPtr()) {}
    void sampleGoal(ob::State *) const override {}
    unsigned int maxSampleCount() const override { return g_goal_count; }
    double distanceGoal(const ob::State *) const override { return 0; }
};
VT_DECLARE_VTABLE(StubGoal, "_ZTV8StubGoal")
struct StubObj : ob::OptimizationObjective
{
    StubObj() : ob::OptimizationObjective(ob::SpaceInformationPtr()) {}
    ob::Cost stateCost(const ob::State *) const override { return ob::Cost(0); }
    ob::Cost motionCost(const ob::State *, const ob::State *) const override { return ob::Cost(0); }
};
VT_DECLARE_VTABLE(StubObj, "_ZTV7StubObj")
extern "C" void vt_force_vtable() { StubGoal *g = new StubGoal(); StubObj *o = new StubObj(); (void)g; (void)o; }
alignas(16) static char goal_buf[sizeof(StubGoal)], obj_buf[sizeof(StubObj)];
union SH { ob::PathLengthDirectInfSampler s; char raw[sizeof(ob::PathLengthDirectInfSampler)]; SH() {} ~SH() {} };
union PH { ob::ProblemDefinition p; char raw[sizeof(ob::ProblemDefinition)]; PH() {} ~PH() {} };
static SH g_sh; static PH g_ph;
static ob::PathLengthDirectInfSampler *setup()
{
    std::memset(g_sh.raw, 0, sizeof g_sh.raw); std::memset(g_ph.raw, 0, sizeof g_ph.raw);
    ob::PathLengthDirectInfSampler *s = &g_sh.s;
    // the list of PHSs (one per start/goal pair), nodes linked by hand (std::list's hook functions live in libstdc++.so)
    auto &hdr = s->listPhsPtrs_._M_impl._M_node;
    std::__detail::_List_node_base *prev = &hdr;
#pragma clang loop unroll(full)
    for (int i = 0; i < NPHS; ++i)
    {
        std::memset((void *)&g_ln[i], 0, sizeof g_ln[i]);
        vt::set_raw(*g_ln[i].n._M_valptr(), &g_phs[i].p);
        prev->_M_next = &g_ln[i].n; g_ln[i].n._M_prev = prev; prev = &g_ln[i].n;
    }
    prev->_M_next = &hdr; hdr._M_prev = prev; hdr._M_size = NPHS;
    g_goal_count = 1 + (nondet_uchar() % 3);       // the PHS list is starts x goals: several PHSs may exist with ONE goal
    vt::set_raw(g_ph.p.goal_, (ob::Goal *)VT_RAW_OBJECT(StubGoal, StubGoal, goal_buf));
    static_cast<StubGoal *>((ob::Goal *)goal_buf)->type_ = ob::GOAL_SAMPLEABLE_REGION;
    vt::set_raw(s->probDefn_, &g_ph.p);
    vt::set_raw(s->opt_, (ob::OptimizationObjective *)VT_RAW_OBJECT(StubObj, StubObj, obj_buf));
    new (&s->rng_.uniDist_) std::uniform_real_distribution<>(0.0, 1.0);
#pragma clang loop unroll(full)
    for (int i = 0; i < NPHS; ++i) { g_in[i] = nondet_uchar() & 1; g_len[i] = (double)(nondet_uchar() & 63) * 0.25; }
    return s;
}
extern "C" void harness_keep_sample()
{
    ob::PathLengthDirectInfSampler *s = setup();
    std::vector<double> v(2); v[0] = 0.5; v[1] = 0.25;
    unsigned K = 0;
#pragma clang loop unroll(full)
    for (int i = 0; i < NPHS; ++i) K += g_in[i];
    VT_CHECK(s->numberOfPhsInclusions(v) == K, "the number of PHS inclusions counts every hyperspheroid containing the candidate");
    VT_CHECK(s->isInAnyPhs(v) == (K > 0), "a candidate is in the informed set exactly when some hyperspheroid contains it");
    __CPROVER_assume(K >= 1);                        // the candidate was drawn from one of the PHSs
    vt_last_canonical = -1.0;
    bool keep = s->keepSample(v);
    double r = vt_last_canonical;
    if (K == 1) VT_CHECK(keep, "a candidate inside a single hyperspheroid is always kept");
    else
    {
        VT_CHECK(r >= 0.0, "with overlapping hyperspheroids the decision uses a uniform draw");
        // kept with probability 1/K: uniform density over the union of overlapping hyperspheroids
        if (r * (double)K < 0.999) VT_CHECK(keep, "a candidate inside K hyperspheroids is kept when the uniform draw is below 1/K");
        if (r * (double)K > 1.001) VT_CHECK(!keep, "a candidate inside K hyperspheroids is rejected when the uniform draw is above 1/K (probability (K-1)/K)");
#if NPHS > 1
        if (r * (double)K > 1.001) vt_cover("overlap rejection");
#endif
    }
    VT_CHECK(!g_bad, "only the registered hyperspheroids are consulted");
    vt_cover("keep sample end");
}
extern "C" void harness_direct_heuristic()
{
    ob::PathLengthDirectInfSampler *s = setup();
    s->informedIdx_ = 0;
    // heuristicSolnCost reads the informed substate through the space: cut to the loop over the PHSs by a 1-d stub space
    double best = 1e300;
#pragma clang loop unroll(full)
    for (int i = 0; i < NPHS; ++i) if (g_len[i] < best) best = g_len[i];
    ob::Cost m = s->opt_->infiniteCost();
    for (const auto &p : s->listPhsPtrs_) m = s->opt_->betterCost(m, ob::Cost(p->getPathLength(nullptr)));
    VT_CHECK(m.value() == best, "the heuristic through a state is the smallest focal path length over all start/goal pairs");
    vt_cover("direct heuristic end");
}
