// C20: seed plumbing of RandomNumbers.cpp (the file is included so that its anonymous-namespace seed generator is
// visible).  The random engines are an environment model: seeding records the value the engine was seeded with (its
// state is a function of that value alone), so the check is about WHICH value reaches the engines - the global seed,
// never the clock - and about the cached variates being dropped on reseeding.
#include "vt.h"
#include <chrono>
#include <random>
static long g_clock_val;
std::chrono::system_clock::time_point std::chrono::system_clock::now() noexcept
{
    long v = nondet_long();
    g_clock_val = v;
    return time_point(duration(v));
}
namespace std
{
    // environment model of the engines: state == seed (recorded in the first state word)
    template <> void subtract_with_carry_engine<uint_fast32_t, 24, 10, 24>::seed(result_type v) { _M_x[0] = v; _M_x[1] = 0x5eed; _M_carry = 0; _M_p = 0; }
    template <> subtract_with_carry_engine<uint_fast32_t, 24, 10, 24>::result_type subtract_with_carry_engine<uint_fast32_t, 24, 10, 24>::operator()()
    {
        _M_x[0] = (_M_x[0] * 1664525u + 1013904223u) & 0xffffffu;     // any fixed function of the state would do
        return _M_x[0];
    }
    template <> void mersenne_twister_engine<uint_fast32_t, 32, 624, 397, 31, 0x9908b0dfUL, 11, 0xffffffffUL, 7, 0x9d2c5680UL, 15, 0xefc60000UL, 18, 1812433253UL>::seed(result_type v)
    { _M_x[0] = v; _M_x[1] = 0x5eed; _M_p = 0; }
}
#include "ompl/util/src/RandomNumbers.cpp"
void ompl::msg::log(const char *, int, LogLevel, const char *, ...) {}
extern "C" void harness_global_seed()
{
    union H { RNGSeedGenerator g; H() {} ~H() {} };
    static H a;
    new (&a.g) RNGSeedGenerator();
    unsigned long clockSeed = a.g.firstSeed();
    std::uint_fast32_t s = nondet_ulong();
    VT_ASSUME(s <= 0xffffffffUL);
    bool drewBefore = vt_nondet_bool();
    if (drewBefore) a.g.someSeedsGenerated_ = true;     // (what nextSeed() records; the draw itself is the seed_range query)
    a.g.setSeed(s);
    if (!drewBefore)
    {
        VT_CHECK(a.g.sGen_._M_x[0] == (s > 0 ? s : 1) && a.g.sGen_._M_x[1] == 0x5eed && a.g.sGen_._M_p == 0,
                 "after setSeed the seed engine is seeded with exactly the global seed (1 for seed 0), never with the clock");
        if (s > 0) VT_CHECK(a.g.firstSeed() == s, "firstSeed reports the global seed that was set");
        vt_cover("seed set before any draw");
    }
    else if (s > 0)
        VT_CHECK(a.g.firstSeed() == clockSeed, "a seed set after seeds were drawn does not pretend to be the first seed");
    vt_cover("global seed end");
}
extern "C" void harness_seed_range()
{
    union H { RNGSeedGenerator g; H() {} ~H() {} };
    static H a;
    new (&a.g) RNGSeedGenerator();
    std::uint_fast32_t s = nondet_ulong();
    VT_ASSUME(s <= 0xffffffffUL);
    a.g.setSeed(s);
    std::uint_fast32_t x = a.g.nextSeed();
    VT_CHECK(x >= 1 && x <= 1000000000, "seeds handed out lie in [1, 1e9]");
    VT_CHECK(a.g.someSeedsGenerated_, "drawing a seed is recorded");
    vt_cover("seed range end");
}
extern "C" void harness_local_seed()
{
    union R { ompl::RNG r; R() {} ~R() {} };
    static R h;
    ompl::RNG *r = &h.r;
    std::memset((void *)r, 0, sizeof(ompl::RNG));
    alignas(16) static char sd_buf[sizeof(ompl::RNG::SphericalData)];
    std::memset(sd_buf, 0, sizeof sd_buf);
    {
        void *raw = sd_buf;
        std::memcpy((void *)&r->sphericalDataPtr_, &raw, sizeof raw);     // no control block; empty per-dimension table
    }
    new (&r->normalDist_) std::normal_distribution<>(0.0, 1.0);
    r->normalDist_._M_saved_available = vt_nondet_bool();                // an odd number of Gaussian draws may have happened
    r->normalDist_._M_saved = nondet_double();
    r->generator_._M_x[0] = nondet_ulong(); r->generator_._M_p = nondet_ulong() % 625;
    std::uint_fast32_t s = nondet_ulong();
    VT_ASSUME(s <= 0xffffffffUL);
    r->setLocalSeed(s);
    VT_CHECK(r->getLocalSeed() == s, "the local seed is stored");
    VT_CHECK(r->generator_._M_x[0] == s && r->generator_._M_x[1] == 0x5eed && r->generator_._M_p == 0, "the engine is reseeded with exactly the local seed");
    VT_CHECK(!r->normalDist_._M_saved_available, "no cached normal variate of the old stream survives the reseed");
    vt_cover("local seed end");
}
