// C05: DiscreteMotionValidator::checkMotion (both forms) against a stub space whose interpolate() tags the output
// with the subdivision index j for which t == (double)j/(double)nd, and a symbolic validity bit per subdivision point.
#include <queue>
#include "vt_ompl.h"
#include "ompl/base/DiscreteMotionValidator.h"
VT_CUT_STATESPACE_CTOR

#ifndef ND
#define ND 4
#endif
#define MAXND (ND > 0 ? ND : 1)
struct TState : ob::State { double t; int tag; };
static int g_nd;
static unsigned char g_valid[MAXND + 1];   // validity of subdivision point j (j = nd is s2)
static unsigned char g_seen[MAXND + 1];
static double g_T[MAXND + 1];
static int g_bad;                           // an interpolation parameter that is not a j/nd point was used
static TState g_test;
static int g_alloc, g_free;
struct StubSpace : ob::StateSpace
{
    unsigned int getDimension() const override { return 1; }
    double getMaximumExtent() const override { return 1; }
    double getMeasure() const override { return 1; }
    void enforceBounds(ob::State *) const override {}
    bool satisfiesBounds(const ob::State *) const override { return true; }
    void copyState(ob::State *d, const ob::State *s) const override { static_cast<TState *>(d)->t = static_cast<const TState *>(s)->t; static_cast<TState *>(d)->tag = static_cast<const TState *>(s)->tag; }
    double distance(const ob::State *, const ob::State *) const override { return 0; }
    bool equalStates(const ob::State *, const ob::State *) const override { return false; }
    unsigned int validSegmentCount(const ob::State *, const ob::State *) const override { return g_nd; }
    void interpolate(const ob::State *, const ob::State *, double t, ob::State *out) const override
    {
        int tag = -1;
        for (int j = 0; j <= MAXND; ++j)
            if (j <= g_nd && t == g_T[j]) tag = j;
        if (tag < 0) g_bad = 1;
        static_cast<TState *>(out)->t = t;
        static_cast<TState *>(out)->tag = tag;
    }
    ob::StateSamplerPtr allocDefaultStateSampler() const override { return ob::StateSamplerPtr(); }
    ob::State *allocState() const override { ++g_alloc; return &g_test; }
    void freeState(ob::State *) const override { ++g_free; }
};
struct StubSVC : ob::StateValidityChecker
{
    StubSVC() : ob::StateValidityChecker((ob::SpaceInformation *)nullptr) {}
    bool isValid(const ob::State *s) const override
    {
        int tag = static_cast<const TState *>(s)->tag;
        if (tag < 0 || tag > MAXND) { g_bad = 1; return true; }
        if (g_seen[tag] < 200) g_seen[tag]++;
        return g_valid[tag];
    }
};
alignas(16) static char sp_buf[sizeof(StubSpace)];
alignas(16) static char svc_buf[sizeof(StubSVC)];
alignas(16) static char mv_buf[sizeof(ob::DiscreteMotionValidator)];
static vt::SIBuf g_si;

extern "C" void harness_dmv()
{
    auto *sp = new (sp_buf) StubSpace();
    auto *svc = new (svc_buf) StubSVC();
    g_si.init(sp, svc);
    auto *mv = new (mv_buf) ob::DiscreteMotionValidator(g_si.si());
    g_nd = ND;
    for (int j = 0; j <= MAXND; ++j)
    {
        g_valid[j] = nondet_uchar() & 1;
        g_seen[j] = 0;
        g_T[j] = (double)j / (double)MAXND;
    }
    TState s1, s2, lv;
    s1.t = 0; s1.tag = 0; s2.t = 1; s2.tag = MAXND; lv.t = -7; lv.tag = -7;   // for nd == 0 (distance-0 pair) the end state still has its own validity bit
    bool expect = true;
    int firstBad = -1;
    for (int j = 1; j <= MAXND; ++j)
        if (!g_valid[j] && firstBad < 0) { expect = false; firstBad = j; }
    // fast form
    bool r2 = mv->checkMotion(&s1, &s2);
    VT_CHECK(r2 == expect, "fast form: valid exactly when every subdivision point and the end state are valid");
    VT_CHECK(!g_bad, "fast form interpolates only at j/nd points");
    if (r2)
    {
        for (int j = 1; j <= MAXND; ++j)
            VT_CHECK(g_seen[j] == 1, "fast form checks every subdivision point exactly once on success");
        vt_cover("fast form valid");
    }
    else
        vt_cover("fast form invalid");
    VT_CHECK(mv->valid_ + mv->invalid_ == 1 && mv->valid_ == (r2 ? 1u : 0u), "fast form advances exactly one counter");
    VT_CHECK(g_alloc == g_free, "fast form frees its temporary state");
    // lastValid form
    std::pair<ob::State *, double> last(&lv, -3.0);
    bool r1 = mv->checkMotion(&s1, &s2, last);
    VT_CHECK(r1 == expect, "lastValid form: same verdict");
    VT_CHECK(r1 == r2, "both forms agree");
    VT_CHECK(!g_bad, "lastValid form interpolates only at j/nd points");
    if (r1)
        VT_CHECK(last.second == -3.0 && lv.tag == -7 && lv.t == -7, "lastValid storage untouched on success");
    else
    {
        VT_CHECK(last.second >= 0.0 && last.second < 1.0, "lastValid fraction in [0,1)");
        VT_CHECK(lv.tag == firstBad - 1, "lastValid state is the interpolation just before the first invalid point");
        VT_CHECK(last.second == (double)(firstBad - 1) / (double)MAXND, "lastValid fraction is (j-1)/nd");
        VT_CHECK(lv.t == last.second, "lastValid state is the interpolation at the reported fraction");
    }
    VT_CHECK(mv->valid_ + mv->invalid_ == 2 && mv->valid_ == (r1 ? 2u : 0u), "lastValid form advances exactly one counter");
    VT_CHECK(g_alloc == g_free, "lastValid form frees its temporary state");
    // null lastValid.first is allowed
    std::pair<ob::State *, double> last0(nullptr, -3.0);
    bool r3 = mv->checkMotion(&s1, &s2, last0);
    VT_CHECK(r3 == expect, "lastValid form with null state: same verdict");
    if (!r3) VT_CHECK(last0.second == (double)(firstBad - 1) / (double)MAXND, "lastValid fraction with null state");
    // the callers in the library pass the end state itself as last-valid storage (aliasing)
    TState s2b;
    s2b.t = 1; s2b.tag = MAXND;
    std::pair<ob::State *, double> lastA(&s2b, -3.0);
    bool r4 = mv->checkMotion(&s1, &s2b, lastA);
    VT_CHECK(r4 == expect, "lastValid form with aliased storage: same verdict");
    if (!r4)
    {
        VT_CHECK(s2b.tag == firstBad - 1, "with the end state as last-valid storage it is overwritten by the last valid state");
        VT_CHECK(lastA.second == (double)(firstBad - 1) / (double)MAXND, "lastValid fraction with aliased storage");
    }
    vt_cover("end");
}
