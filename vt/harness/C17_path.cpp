// C17: densification kernels of PathGeometric (interpolate(count), interpolate(), subdivide) on a path of NS stub states
// with symbolic integer segment lengths; SpaceInformation::getMotionStates is an environment stub that hands out tagged
// interior states.
#include "vt_ompl.h"
#include "ompl/geometric/PathGeometric.h"
VT_CUT_STATESPACE_CTOR
namespace og = ompl::geometric;
#ifndef NS
#define NS 3
#endif
#define MAXNEW 12
struct TState : ob::State { int orig; int seg; int j; int of; };
static TState g_st[NS + 1], g_new[MAXNEW];
static int g_nnew, g_over, g_bad;
static double g_len[NS + 1];
static unsigned g_vsc[NS + 1];
struct StubSpace : ob::StateSpace
{
    unsigned int getDimension() const override { return 1; }
    double getMaximumExtent() const override { return 1; }
    double getMeasure() const override { return 1; }
    void enforceBounds(ob::State *) const override {}
    bool satisfiesBounds(const ob::State *) const override { return true; }
    void copyState(ob::State *, const ob::State *) const override {}
    double distance(const ob::State *a, const ob::State *b) const override
    {
        const TState *x = static_cast<const TState *>(a), *y = static_cast<const TState *>(b);
        if (x->orig < 0 || y->orig != x->orig + 1) { g_bad = 1; return 0; }
        return g_len[x->orig];
    }
    bool equalStates(const ob::State *, const ob::State *) const override { return false; }
    unsigned int validSegmentCount(const ob::State *a, const ob::State *) const override { return g_vsc[static_cast<const TState *>(a)->orig]; }
    void interpolate(const ob::State *a, const ob::State *b, double t, ob::State *o) const override
    {
        const TState *x = static_cast<const TState *>(a), *y = static_cast<const TState *>(b);
        TState *r = static_cast<TState *>(o);
        if (x->orig < 0 || y->orig != x->orig + 1 || t != 0.5) g_bad = 1;
        r->orig = -1; r->seg = x->orig; r->j = 1; r->of = 1;
    }
    ob::StateSamplerPtr allocDefaultStateSampler() const override { return ob::StateSamplerPtr(); }
    ob::State *allocState() const override { if (g_nnew >= MAXNEW) { g_over = 1; return &g_new[0]; } return &g_new[g_nnew++]; }
    void freeState(ob::State *) const override {}
};
// environment: "count" interior states of the motion s1->s2, no endpoints, freshly allocated (C05 checks the real one)
unsigned int ompl::base::SpaceInformation::getMotionStates(const State *s1, const State *s2, std::vector<State *> &states, unsigned int count, bool endpoints, bool alloc) const
{
    const TState *x = static_cast<const TState *>(s1), *y = static_cast<const TState *>(s2);
    if (x->orig < 0 || y->orig != x->orig + 1 || endpoints || !alloc) g_bad = 1;
    states.clear();
    for (unsigned j = 0; j < MAXNEW; ++j)
        if (j < count)
        {
            if (g_nnew >= MAXNEW) { g_over = 1; break; }
            TState *n = &g_new[g_nnew++];
            n->orig = -1; n->seg = x->orig; n->j = (int)j + 1; n->of = (int)count;
            states.push_back(n);
        }
    return states.size();
}
alignas(16) static char sp_buf[sizeof(StubSpace)];
union PH { og::PathGeometric p; PH() {} ~PH() {} };
static PH g_ph;
static vt::SIBuf g_si;
VT_DECLARE_VTABLE(SI, "_ZTVN4ompl4base16SpaceInformationE")
VT_DECLARE_VTABLE(PG, "_ZTVN4ompl9geometric13PathGeometricE")
static og::PathGeometric *setup()
{
    auto *sp = new (sp_buf) StubSpace();
    g_si.init(sp, nullptr, nullptr, &vt_vtbl_SI[2]);
    og::PathGeometric *path = &g_ph.p;
    *(void ***)path = &vt_vtbl_PG[2];      // interpolate(count) calls the virtual length()
    vt::set_raw(path->si_, g_si.si());
    new (&path->states_) std::vector<ob::State *>();
    for (int i = 0; i < NS; ++i) { g_st[i].orig = i; g_st[i].seg = -1; path->states_.push_back(&g_st[i]); }
    return path;
}
// walk the result: originals appear in order, interior states sit inside their own segment, in order
static void check_structure(og::PathGeometric *path, unsigned cap)
{
    int nextOrig = 0, lastJ = 0;
    for (unsigned i = 0; i < cap; ++i)
    {
        if (i >= path->states_.size()) break;
        const TState *s = static_cast<const TState *>(path->states_[i]);
        if (s->orig >= 0)
        {
            VT_CHECK(s->orig == nextOrig, "the original vertices are kept, in order");
            ++nextOrig; lastJ = 0;
        }
        else
        {
            VT_CHECK(nextOrig >= 1 && s->seg == nextOrig - 1, "an added state lies on the segment between its neighbouring original vertices");
            VT_CHECK(s->j == lastJ + 1, "added states of a segment appear in order, none skipped or repeated");
            lastJ = s->j;
        }
    }
    VT_CHECK(nextOrig == NS, "every original vertex is kept");
    if (NS > 0 && path->states_.size() > 0)
    {
        VT_CHECK(path->states_[0] == &g_st[0], "the first state is kept");
        VT_CHECK(path->states_[path->states_.size() - 1] == &g_st[NS - 1], "the last state is kept");
    }
}
extern "C" void harness_interpolate_count()
{
    og::PathGeometric *path = setup();
#ifdef LENPAT
    // case split for paths of 3+ states (symbolic lengths make every block size symbolic: undecided in 450 s)
    for (int i = 0; i + 1 < NS; ++i) g_len[i] = (double)((LENPAT >> (4 * i)) & 15);
    unsigned req = REQ;
#else
    for (int i = 0; i + 1 < NS; ++i) g_len[i] = (double)(nondet_uchar() & 7);   // zero-length segments allowed
#if NS >= 2
    VT_ASSUME(g_len[NS - 2] >= 1.0);   // (keeps the remaining length positive: 0/0 in the real code is outside the claim)
#endif
    unsigned req = nondet_uchar() % (NS + 6);
#endif
    path->og::PathGeometric::interpolate(req);
    VT_CHECK(!g_bad && !g_over, "environment used as documented (bound of the harness)");
    if (req >= NS && NS >= 2)
    {
        VT_CHECK(path->states_.size() == req, "interpolate(count) yields exactly the requested number of states");
        if (req > NS) vt_cover("states were added");
    }
    else
        VT_CHECK(path->states_.size() == NS, "a request below the current size (or a path of fewer than two states) changes nothing");
    check_structure(path, NS + 6);
    vt_cover("interpolate(count) end");
}
extern "C" void harness_interpolate_auto()
{
    og::PathGeometric *path = setup();
    unsigned total = NS;
#ifdef VSCPAT
    for (int i = 0; i + 1 < NS; ++i) { g_vsc[i] = ((VSCPAT >> (2 * i)) & 3) + 1; total += g_vsc[i] - 1; }   // case split for longer paths
#else
    for (int i = 0; i + 1 < NS; ++i) { g_vsc[i] = nondet_uchar() % 4; total += g_vsc[i] > 0 ? g_vsc[i] - 1 : 0; }
    for (int i = 0; i + 1 < NS; ++i) VT_ASSUME(g_vsc[i] >= 1);
#endif
    path->og::PathGeometric::interpolate();
    VT_CHECK(!g_bad && !g_over, "environment used as documented (bound of the harness)");
#if NS >= 1
    VT_CHECK(path->states_.size() == total, "interpolate() adds validSegmentCount-1 states per segment");
    check_structure(path, NS * 4 + 2);
#endif
    vt_cover("interpolate() end");
}
extern "C" void harness_subdivide()
{
    og::PathGeometric *path = setup();
    path->og::PathGeometric::subdivide();
    VT_CHECK(!g_bad && !g_over, "environment used as documented (bound of the harness)");
    VT_CHECK(path->states_.size() == (NS >= 2 ? 2 * NS - 1 : NS), "subdivide yields 2n-1 states");
    check_structure(path, 2 * NS + 2);
#if NS >= 2
    for (unsigned i = 0; i < 2 * NS - 1; ++i)
        if (i < path->states_.size()) VT_CHECK((static_cast<const TState *>(path->states_[i])->orig >= 0) == (i % 2 == 0), "original vertices sit at the even positions, midpoints between them");
#endif
    vt_cover("subdivide end");
}
