// C14: segment integration of the curve interpolation (ReedsSheppStateSpace::interpolate(from, path, t, state) and
// DubinsStateSpace::interpolate(from, path, t, state, radius)) for an ARBITRARY word of the real word tables with arbitrary
// signed segment lengths: the interpolation consumes exactly t times the curve length of arc, segment by segment in word
// order, and the heading changes by the signed turn amounts - so the curve reaches the end of the LAST segment as t -> 1
// (no segment is skipped) and prefixes of the curve are prefixes.  sin/cos are uninterpreted (positions are not asserted);
// lengths are multiples of 1/4 and t a multiple of 1/8 so that the arc bookkeeping is exact in double arithmetic.
#include "vt_ompl.h"
#if RS
#include "ompl/base/spaces/ReedsSheppStateSpace.h"
typedef ob::ReedsSheppStateSpace Space;
typedef ob::ReedsSheppStateSpace::ReedsSheppPath PathT;
#define NSEG 5
#else
#include "ompl/base/spaces/DubinsStateSpace.h"
typedef ob::DubinsStateSpace Space;
typedef ob::DubinsStateSpace::DubinsPath PathT;
#define NSEG 3
#endif
#include "ompl/base/spaces/SO2StateSpace.h"
#include "ompl/base/spaces/RealVectorStateSpace.h"
VT_CUT_STATESPACE_CTOR
void ompl::msg::log(const char *, int, LogLevel, const char *, ...) {}
struct SE2Buf
{
    double xy[2];
    ob::RealVectorStateSpace::StateType rv;
    ob::SO2StateSpace::StateType so2;
    ob::State *comps[2];
    ob::SE2StateSpace::StateType st;
    void init() { rv.values = xy; comps[0] = &rv; comps[1] = &so2; st.components = comps; xy[0] = xy[1] = 0; so2.value = 0; }
};
// the two CompoundStateSpace members the unit reaches (the rest of StateSpace.cpp is not linked)
const ob::StateSpacePtr &ob::CompoundStateSpace::getSubspace(const unsigned int index) const { return components_[index]; }
void ob::CompoundStateSpace::enforceBounds(ob::State *) const {}
static SE2Buf g_from, g_out, g_tmp;
static int g_alloc, g_free, g_enforced;
static double g_yaw_seen;
struct StubSO2 : ob::StateSpace       // heading component: enforceBounds is recorded and leaves the value alone
{
    unsigned int getDimension() const override { return 1; }
    double getMaximumExtent() const override { return 1; }
    double getMeasure() const override { return 1; }
    void enforceBounds(ob::State *s) const override { ++g_enforced; g_yaw_seen = static_cast<ob::SO2StateSpace::StateType *>(s)->value; }
    bool satisfiesBounds(const ob::State *) const override { return true; }
    void copyState(ob::State *, const ob::State *) const override {}
    double distance(const ob::State *, const ob::State *) const override { return 0; }
    bool equalStates(const ob::State *, const ob::State *) const override { return false; }
    void interpolate(const ob::State *, const ob::State *, double, ob::State *) const override {}
    ob::StateSamplerPtr allocDefaultStateSampler() const override { return ob::StateSamplerPtr(); }
    ob::State *allocState() const override { return nullptr; }
    void freeState(ob::State *) const override {}
};
struct Sp : Space
{
    ob::State *allocState() const override { ++g_alloc; g_tmp.init(); return &g_tmp.st; }
    void freeState(ob::State *) const override { ++g_free; }
};
VT_DECLARE_VTABLE(Sp, "_ZTV2Sp")
extern "C" void vt_force_vtable() { Sp *p = new Sp(); (void)p; }
alignas(16) static char so2_buf[sizeof(StubSO2)];
union SH { Sp s; char raw[sizeof(Sp)]; SH() {} ~SH() {} };
static SH g_sh;
static ob::StateSpacePtr g_comp[2];
static double quarter(int lo, int hi) { int v = (int)(nondet_uchar() % (unsigned)(hi - lo + 1)) + lo; return (double)v * 0.25; }

extern "C" void harness_segment_walk()
{
    std::memset(g_sh.raw, 0, sizeof g_sh.raw);
    Sp *sp = &g_sh.s;
    *(void ***)sp = &vt_vtbl_Sp[2];
    std::memset((void *)g_comp, 0, sizeof g_comp);
    vt::set_raw(g_comp[1], (ob::StateSpace *)new (so2_buf) StubSO2());
    sp->components_._M_impl._M_start = g_comp; sp->components_._M_impl._M_finish = g_comp + 2; sp->components_._M_impl._M_end_of_storage = g_comp + 2;
    sp->componentCount_ = 2;
    sp->rho_ = 1.0;
    g_from.init(); g_out.init();
    double yaw0 = quarter(-8, 8);
    g_from.so2.value = yaw0; g_from.xy[0] = quarter(-4, 4); g_from.xy[1] = quarter(-4, 4);
    PathT path;
    double len[NSEG], total = 0;
#if RS
#ifdef WORD
    unsigned w = WORD;                    // case split over the word table
#else
    unsigned w = nondet_uchar() % 18;
#endif
    path.type_ = Space::reedsSheppPathType[w];
#pragma clang loop unroll(full)
    for (int i = 0; i < NSEG; ++i) { len[i] = quarter(-8, 8); path.length_[i] = len[i]; }
    total = quarter(0, 40);              // (the total length is a field of the path; the walk must not depend on it being the sum)
    path.totalLength_ = total;
    bool reverse = false;
#else
#ifdef WORD
    unsigned w = WORD;
#else
    unsigned w = nondet_uchar() % 6;
#endif
    path.type_ = &Space::dubinsPathType()[w];
#pragma clang loop unroll(full)
    for (int i = 0; i < NSEG; ++i) { len[i] = quarter(0, 8); path.length_[i] = len[i]; }
    total = len[0] + len[1] + len[2];
    bool reverse = vt_nondet_bool();
    path.reverse_ = reverse;
#endif
    __CPROVER_assume(total > 0);
    double t = (double)(1 + nondet_uchar() % 8) * 0.125;          // t in {1/8, ..., 1}
#if RS
    sp->Space::interpolate(&g_from.st, path, t, &g_out.st);
#else
    sp->Space::interpolate(&g_from.st, path, t, &g_out.st, 1.0);
#endif
    // reference walk (an executable statement of "consume t*length of arc, segment by segment in word order"): the float
    // operations are written in the order the vehicle model prescribes so that, with the adders/multipliers abstracted by
    // uninterpreted functions, equal results are recognised; an implementation that skips, reorders or mis-signs a
    // segment computes a different term (and the exact-arithmetic fallback then finds concrete numbers)
    double remaining = t * total, yaw = yaw0;
    int lastTouched = -1;
#pragma clang loop unroll(full)
    for (int k = 0; k < NSEG; ++k)
    {
        int i = reverse ? NSEG - 1 - k : k;
        if (remaining > 0)
        {
            double v;
            if (len[i] < 0) { v = -remaining > len[i] ? -remaining : len[i]; remaining += v; }     // backwards: v <= 0
            else { v = remaining < len[i] ? remaining : len[i]; remaining -= v; }
#if RS
            int ty = (int)path.type_[i];
            if (ty == Space::RS_LEFT) yaw = yaw + v; else if (ty == Space::RS_RIGHT) yaw = yaw - v;
#else
            int ty = (int)(*path.type_)[i];
            if (ty == Space::DUBINS_LEFT) yaw = reverse ? yaw - v : yaw + v; else if (ty == Space::DUBINS_RIGHT) yaw = reverse ? yaw + v : yaw - v;
#endif
            lastTouched = k;
        }
    }
    VT_CHECK(g_enforced == 1, "the heading is normalised once");
    VT_CHECK(g_out.so2.value == yaw && g_yaw_seen == yaw, "the heading at t is the start heading plus the signed turns of exactly t times the curve length of arc, consumed segment by segment in word order");
    VT_CHECK(g_alloc == 1 && g_free == 1, "the temporary state is freed");
    if (lastTouched == NSEG - 1) vt_cover("the walk reaches the last segment of the word");
    vt_cover("segment walk end");
}
