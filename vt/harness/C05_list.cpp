// C05: SpaceInformation::checkMotion(states,count) (both forms) and SpaceInformation::getMotionStates.
#include <queue>
#include "vt_ompl.h"
VT_CUT_STATESPACE_CTOR
#ifndef CNT
#define CNT 4
#endif
#ifndef SZ
#define SZ (CNT + 2)
#endif
#define MAXP (CNT + 3)
struct TState : ob::State { double t; int tag; };
static unsigned char g_valid[SZ + 1];
static unsigned char g_seen[SZ + 1];
static TState g_pool[MAXP + 2];
static int g_alloc, g_bad, g_segs;
static double g_T[MAXP + 2];
struct StubSpace : ob::StateSpace
{
    unsigned int getDimension() const override { return 1; }
    double getMaximumExtent() const override { return 1; }
    double getMeasure() const override { return 1; }
    void enforceBounds(ob::State *) const override {}
    bool satisfiesBounds(const ob::State *) const override { return true; }
    void copyState(ob::State *d, const ob::State *s) const override { static_cast<TState *>(d)->t = static_cast<const TState *>(s)->t; static_cast<TState *>(d)->tag = static_cast<const TState *>(s)->tag; }
    double distance(const ob::State *, const ob::State *) const override { return 0; }
    bool equalStates(const ob::State *, const ob::State *) const override { return false; }
    void interpolate(const ob::State *, const ob::State *, double t, ob::State *out) const override
    {
        int tag = -1;
        for (int j = 0; j <= MAXP; ++j)
            if (j <= g_segs && t == g_T[j]) tag = j;
        if (tag < 0) g_bad = 1;
        static_cast<TState *>(out)->t = t;
        static_cast<TState *>(out)->tag = tag;
    }
    ob::StateSamplerPtr allocDefaultStateSampler() const override { return ob::StateSamplerPtr(); }
    ob::State *allocState() const override { if (g_alloc > MAXP) { g_bad = 1; return &g_pool[0]; } g_pool[g_alloc].tag = -5; return &g_pool[g_alloc++]; }
    void freeState(ob::State *) const override {}
};
struct StubSVC : ob::StateValidityChecker
{
    StubSVC() : ob::StateValidityChecker((ob::SpaceInformation *)nullptr) {}
    bool isValid(const ob::State *s) const override
    {
        int tag = static_cast<const TState *>(s)->tag;
        if (tag < 0 || tag >= SZ) { g_bad = 1; return true; }
        if (g_seen[tag] < 200) g_seen[tag]++;
        return g_valid[tag];
    }
};
alignas(16) static char sp_buf[sizeof(StubSpace)];
alignas(16) static char svc_buf[sizeof(StubSVC)];
static vt::SIBuf g_si;
static TState g_states[SZ];

// explicit list of SZ states, the first CNT of which are checked
extern "C" void harness_list()
{
    auto *sp = new (sp_buf) StubSpace();
    auto *svc = new (svc_buf) StubSVC();
    g_si.init(sp, svc);
    std::vector<ob::State *> states;
    states.reserve(SZ);
    for (int i = 0; i < SZ; ++i)
    {
        g_states[i].tag = i;
        g_valid[i] = nondet_uchar() & 1;
        states.push_back(&g_states[i]);
    }
    bool expect = true;
    unsigned first = 0;
    for (int i = CNT - 1; i >= 0; --i)
        if (!g_valid[i]) { expect = false; first = i; }
    unsigned idx = 12345;
    bool r1 = g_si.si()->ob::SpaceInformation::checkMotion(states, CNT, idx);
    VT_CHECK(r1 == expect, "list check (index form): valid exactly when the first count states are all valid");
    if (!r1) VT_CHECK(idx == first, "list check reports the first invalid index");
    else VT_CHECK(idx == 12345, "index untouched on success");
    VT_CHECK(!g_bad, "list check looks only at the first count states");
    for (int i = 0; i < SZ; ++i) g_seen[i] = 0;
    bool r2 = g_si.si()->ob::SpaceInformation::checkMotion(states, CNT);
    VT_CHECK(r2 == expect, "list check (fast form): valid exactly when the first count states are all valid");
    VT_CHECK(r1 == r2, "both list forms agree");
    VT_CHECK(!g_bad, "fast list check looks only at the first count states");
    for (int i = CNT; i < SZ; ++i) VT_CHECK(g_seen[i] == 0, "fast list check never looks beyond count");
    if (r2)
    {
        for (int i = 0; i < CNT; ++i) VT_CHECK(g_seen[i] >= 1, "fast list check looks at every state on success");
        vt_cover("list valid");
    }
#if CNT > 0
    else
        vt_cover("list invalid");
#endif
    vt_cover("end");
}

// getMotionStates(s1, s2, states, CNT, endpoints, alloc=true)
extern "C" void harness_motion_states_alloc()
{
    auto *sp = new (sp_buf) StubSpace();
    auto *svc = new (svc_buf) StubSVC();
    g_si.init(sp, svc);
    g_segs = CNT + 1;
    for (int j = 0; j <= MAXP; ++j) g_T[j] = (double)j / (double)(CNT + 1);
    TState s1, s2;
    s1.t = 0; s1.tag = 100; s2.t = 1; s2.tag = 200;
#ifdef ENDPOINTS
    bool endpoints = ENDPOINTS;   // case split: the vector size depends on it
#else
    bool endpoints = vt_nondet_bool();
#endif
    std::vector<ob::State *> states;
    states.reserve(MAXP + 2);
    unsigned added = g_si.si()->ob::SpaceInformation::getMotionStates(&s1, &s2, states, CNT, endpoints, true);
    VT_CHECK(!g_bad, "interpolation only at j/(count+1)");
    VT_CHECK(added == states.size(), "with alloc the vector holds exactly the returned number of states");
    VT_CHECK(added == (unsigned)(CNT + (endpoints ? 2 : 0)), "count interior states plus the two endpoints when requested");
    VT_CHECK((unsigned)g_alloc == added, "one allocation per returned state");
    unsigned off = endpoints ? 1 : 0;
    if (endpoints && added > 0)
    {
        VT_CHECK(static_cast<TState *>(states[0])->tag == 100, "first state is a copy of s1");
        VT_CHECK(static_cast<TState *>(states[added - 1])->tag == 200, "last state is a copy of s2");
    }
    for (unsigned j = 1; j <= CNT; ++j)
        if (j - 1 + off < added)
            VT_CHECK(static_cast<TState *>(states[j - 1 + off])->tag == (int)j, "interior state j is the interpolation at j/(count+1)");
    for (unsigned i = 0; i < added; ++i)
        for (unsigned k = i + 1; k < added; ++k)
            VT_CHECK(states[i] != states[k], "returned states are distinct allocations");
    vt_cover("end");
}

// alloc=false into a pre-sized vector of SZ allocated states: fills as many as fit, in order
extern "C" void harness_motion_states_noalloc()
{
    auto *sp = new (sp_buf) StubSpace();
    auto *svc = new (svc_buf) StubSVC();
    g_si.init(sp, svc);
    g_segs = CNT + 1;
    for (int j = 0; j <= MAXP; ++j) g_T[j] = (double)j / (double)(CNT + 1);
    TState s1, s2;
    s1.t = 0; s1.tag = 100; s2.t = 1; s2.tag = 200;
    bool endpoints = vt_nondet_bool();
    std::vector<ob::State *> states;
    states.reserve(SZ);
    for (int i = 0; i < SZ; ++i) { g_states[i].tag = -9; states.push_back(&g_states[i]); }
    unsigned added = g_si.si()->ob::SpaceInformation::getMotionStates(&s1, &s2, states, CNT, endpoints, false);
    VT_CHECK(!g_bad, "interpolation only at j/(count+1)");
    VT_CHECK(g_alloc == 0, "no allocation without alloc");
    VT_CHECK(states.size() == SZ, "vector size unchanged without alloc");
    unsigned want = CNT + (endpoints ? 2 : 0);
    VT_CHECK(added == (want < SZ ? want : SZ), "fills min(requested, available) states");
    unsigned off = endpoints ? 1 : 0;
    if (endpoints && added > 0) VT_CHECK(g_states[0].tag == 100, "first state is a copy of s1");
    if (endpoints && added == want) VT_CHECK(g_states[added - 1].tag == 200, "last state is a copy of s2");
    for (unsigned j = 1; j <= CNT; ++j)
        if (j - 1 + off < added)
            VT_CHECK(g_states[j - 1 + off].tag == (int)j, "interior state j is the interpolation at j/(count+1)");
    for (unsigned i = added; i < SZ; ++i) VT_CHECK(g_states[i].tag == -9, "states beyond the returned count are untouched");
    vt_cover("end");
}
