// C01/C03: the solve loop of a real planner - geometric::RRT::solve - against a nondeterministic environment:
// start states, sampler, nearest-neighbour structure (any stored motion may be "nearest"), distances, motion validity,
// goal verdicts and the evaluation at which the termination condition first fires are all symbolic; states are tagged
// with ids so that the harness can tell where every state of the reported path came from.
#include "vt_ompl.h"
#include "ompl/geometric/planners/rrt/RRT.h"
#include "ompl/geometric/PathGeometric.h"
#include "ompl/base/goals/GoalSampleableRegion.h"
#include "ompl/base/ProblemDefinition.h"
#include "ompl/base/PlannerTerminationCondition.h"
VT_CUT_STATESPACE_CTOR
namespace og = ompl::geometric;
void ompl::msg::log(const char *, int, LogLevel, const char *, ...) {}
#ifndef NSTART
#define NSTART 1
#endif
#ifndef MAXIT
#define MAXIT 2
#endif
#ifndef INTERMEDIATE
#define INTERMEDIATE 0
#endif
#define PMAX (INTERMEDIATE ? 2 * MAXIT : MAXIT)      /* longest branch: with intermediate states every accepted motion adds up to two tree states */
#define VMAX (3 * MAXIT + 3)
#define POOL (NSTART + 5 * MAXIT + 12)
#define MAXM (NSTART + PMAX + 1)
struct TState : ob::State { int id; };
static TState g_pool[POOL];
static int g_alloc, g_free, g_over, g_nextid = 100;
// ---- ghost records
static int g_valid_from[VMAX + 1], g_valid_to[VMAX + 1], g_nvalid;        // motions the validator accepted
static int g_goal_id[MAXIT + 1]; static unsigned char g_goal_sat[MAXIT + 1]; static double g_goal_d[MAXIT + 1]; static int g_ngoal;
static int g_added; static const og::PathGeometric *g_path; static bool g_path_approx; static double g_path_diff;
static int g_ptc_evals, g_ptc_fire;
static TState g_startst[NSTART > 0 ? NSTART : 1];
static int g_starts_handed;
// ---- environment
struct StubSpace : ob::StateSpace
{
    unsigned int getDimension() const override { return 1; }
    double getMaximumExtent() const override { return 1; }
    double getMeasure() const override { return 1; }
    void enforceBounds(ob::State *) const override {}
    bool satisfiesBounds(const ob::State *) const override { return true; }
    void copyState(ob::State *d, const ob::State *s) const override { static_cast<TState *>(d)->id = static_cast<const TState *>(s)->id; }
    double distance(const ob::State *, const ob::State *) const override { return vt_double_in(0.0, 100.0); }
    bool equalStates(const ob::State *, const ob::State *) const override { return false; }
    unsigned int validSegmentCount(const ob::State *, const ob::State *) const override { return 1 + (nondet_uchar() & 1); }
    void interpolate(const ob::State *, const ob::State *, double, ob::State *o) const override { static_cast<TState *>(o)->id = g_nextid++; }
    ob::StateSamplerPtr allocDefaultStateSampler() const override { return ob::StateSamplerPtr(); }
    ob::State *allocState() const override { if (g_alloc >= POOL) { g_over = 1; return &g_pool[0]; } TState *s = &g_pool[g_alloc++]; s->id = -1; return s; }
    void freeState(ob::State *) const override { ++g_free; }
};
struct StubSVC : ob::StateValidityChecker
{
    StubSVC() : ob::StateValidityChecker((ob::SpaceInformation *)nullptr) {}
    bool isValid(const ob::State *) const override { return true; }
};
struct StubMV : ob::MotionValidator
{
    StubMV() : ob::MotionValidator((ob::SpaceInformation *)nullptr) {}
    bool checkMotion(const ob::State *a, const ob::State *b) const override
    {
        bool ok = vt_nondet_bool();
        if (ok && g_nvalid <= VMAX) { g_valid_from[g_nvalid] = static_cast<const TState *>(a)->id; g_valid_to[g_nvalid] = static_cast<const TState *>(b)->id; ++g_nvalid; }
        return ok;
    }
    bool checkMotion(const ob::State *a, const ob::State *b, std::pair<ob::State *, double> &) const override { return checkMotion(a, b); }
};
struct StubSampler : ob::StateSampler
{
    StubSampler() : ob::StateSampler(nullptr) {}
    void sampleUniform(ob::State *s) override { static_cast<TState *>(s)->id = g_nextid++; }
    void sampleUniformNear(ob::State *, const ob::State *, double) override {}
    void sampleGaussian(ob::State *, const ob::State *, double) override {}
};
struct StubGoal : ob::GoalSampleableRegion
{
    StubGoal() : ob::GoalSampleableRegion(ob::SpaceInformationPtr()) {}
    void sampleGoal(ob::State *s) const override { static_cast<TState *>(s)->id = g_nextid++; }
    unsigned int maxSampleCount() const override { return 1; }
    double distanceGoal(const ob::State *) const override { return 0; }
    bool isSatisfied(const ob::State *s, double *d) const override
    {
        bool sat = vt_nondet_bool(); double dd = vt_double_in(0.0, 50.0);
        if (g_ngoal <= MAXIT) { g_goal_id[g_ngoal] = static_cast<const TState *>(s)->id; g_goal_sat[g_ngoal] = sat; g_goal_d[g_ngoal] = dd; ++g_ngoal; }
        if (d) *d = dd;
        return sat;
    }
    bool isSatisfied(const ob::State *s) const override { return isSatisfied(s, nullptr); }
};
typedef og::RRT::Motion Motion;
struct StubNN : ompl::NearestNeighbors<Motion *>
{
    Motion *m[MAXM + 1]; unsigned n;
    bool reportsSortedResults() const override { return false; }
    void clear() override { n = 0; }
    void add(Motion *const &d) override { if (n <= MAXM) m[n] = d; ++n; }
    bool remove(Motion *const &) override { return false; }
    Motion *nearest(Motion *const &) const override { unsigned k = nondet_uchar(); __CPROVER_assume(k < n && k <= MAXM); return m[k]; }   // ANY stored motion
    void nearestK(Motion *const &, std::size_t, std::vector<Motion *> &) const override {}
    void nearestR(Motion *const &, double, std::vector<Motion *> &) const override {}
    std::size_t size() const override { return n; }
    void list(std::vector<Motion *> &) const override {}
};
// ---- library functions replaced by environment stubs (their own code is checked elsewhere or outside the claim)
const std::string &ompl::base::Planner::getName() const { return name_; }
ob::State *ompl::base::StateSpace::cloneState(const ob::State *source) const { ob::State *c = allocState(); copyState(c, source); return c; }
const ob::State *ompl::base::PlannerInputStates::nextStart() { return g_starts_handed < NSTART ? &g_startst[g_starts_handed++] : nullptr; }
bool ompl::base::PlannerTerminationCondition::eval() const { return g_ptc_evals++ >= g_ptc_fire; }       // false for the first g_ptc_fire evaluations, then true forever
void ompl::base::ProblemDefinition::addSolutionPath(const ob::PathPtr &path, bool approximate, double difference, const std::string &) const
{
    ++g_added; g_path = static_cast<const og::PathGeometric *>(path.get()); g_path_approx = approximate; g_path_diff = difference;
    // the path object outlives this call in the real library (the solution set keeps a reference): keep it alive here
    new ob::PathPtr(path);
}
extern "C" void *__dynamic_cast(const void *p, const void *, const void *, long) { return const_cast<void *>(p); }   // the goal IS a sampleable region
// SpaceInformation::checkMotion(s1, s2) is virtual; the real vtable would keep SpaceInformation::setup() and with it the
// default DiscreteMotionValidator (std::deque) alive: a table whose slots all hold this forwarder (= the inline body)
static bool vt_si_check_motion(const ob::SpaceInformation *si, const ob::State *a, const ob::State *b) { return si->motionValidator_->checkMotion(a, b); }
static void *g_si_vtbl[16];
// environment model of SpaceInformation::getMotionStates(s1, s2, states, count, endpoints = true, alloc = true): a copy of s1, count-1
// interpolated states and a copy of s2, freshly allocated.  The chain counts as validated only if the motion validator accepted
// exactly this motion (s1 -> s2) just before - a chain towards a different end state is NOT covered by that verdict.
static unsigned vt_si_get_motion_states(const ob::SpaceInformation *si, const ob::State *s1, const ob::State *s2, std::vector<ob::State *> &states, unsigned count, bool, bool)
{
    int a = static_cast<const TState *>(s1)->id, b = static_cast<const TState *>(s2)->id;
    bool covered = g_nvalid > 0 && g_nvalid <= VMAX && g_valid_from[g_nvalid - 1] == a && g_valid_to[g_nvalid - 1] == b;
    TState *f = static_cast<TState *>(si->allocState()); f->id = a; states.push_back(f);
    int prev = a;
    if (count >= 2)
    {
        TState *m = static_cast<TState *>(si->allocState()); m->id = g_nextid++; states.push_back(m);
        if (covered && g_nvalid <= VMAX) { g_valid_from[g_nvalid] = prev; g_valid_to[g_nvalid] = m->id; ++g_nvalid; }
        prev = m->id;
    }
    TState *l = static_cast<TState *>(si->allocState()); l->id = b; states.push_back(l);
    if (covered && count >= 2 && g_nvalid <= VMAX) { g_valid_from[g_nvalid] = prev; g_valid_to[g_nvalid] = b; ++g_nvalid; }
    return (unsigned)states.size();
}
VT_DECLARE_VTABLE(StubGoal, "_ZTV8StubGoal")
VT_DECLARE_VTABLE(StubNN, "_ZTV6StubNN")
VT_DECLARE_VTABLE(StubSampler, "_ZTV11StubSampler")
// the planner object: RRT's own vtable would keep setup() - and with it the default nearest-neighbour structures - alive.
// solve() makes one virtual call on the planner (checkValidity); the object gets a table whose every slot is this no-op
static void vt_planner_noop(ob::Planner *) {}
static void *g_planner_vtbl[32];
extern "C" void vt_force_vtable() { StubGoal *g = new StubGoal(); StubNN *n = new StubNN(); StubSampler *s = new StubSampler(); (void)g; (void)n; (void)s; }
alignas(16) static char sp_buf[sizeof(StubSpace)], svc_buf[sizeof(StubSVC)], mv_buf[sizeof(StubMV)], goal_buf[sizeof(StubGoal)], nn_buf[sizeof(StubNN)], ss_buf[sizeof(StubSampler)];
union RH { og::RRT r; char raw[sizeof(og::RRT)]; RH() {} ~RH() {} };
union PH { ob::ProblemDefinition p; char raw[sizeof(ob::ProblemDefinition)]; PH() {} ~PH() {} };
union TH { ob::PlannerTerminationCondition t; char raw[sizeof(ob::PlannerTerminationCondition)]; TH() {} ~TH() {} };
static RH g_rh; static PH g_ph; static TH g_th;
static vt::SIBuf g_si;

extern "C" void harness_rrt_solve()
{
    std::memset(g_rh.raw, 0, sizeof g_rh.raw); std::memset(g_ph.raw, 0, sizeof g_ph.raw); std::memset(g_th.raw, 0, sizeof g_th.raw);
    g_si.init(new (sp_buf) StubSpace(), new (svc_buf) StubSVC(), new (mv_buf) StubMV(), g_si_vtbl);
#pragma clang loop unroll(full)
    for (int i = 0; i < 16; ++i) g_si_vtbl[i] = (void *)&vt_si_check_motion;
    g_si_vtbl[4] = (void *)&vt_si_get_motion_states;
    og::RRT *r = &g_rh.r;
#pragma clang loop unroll(full)
    for (int i = 0; i < 32; ++i) g_planner_vtbl[i] = (void *)&vt_planner_noop;
    *(void ***)r = g_planner_vtbl;
    vt::set_raw(r->si_, g_si.si());
    vt::set_raw(r->pdef_, &g_ph.p);
    vt::set_raw(g_ph.p.goal_, (ob::Goal *)VT_RAW_OBJECT(StubGoal, StubGoal, goal_buf));
    StubNN *nn = VT_RAW_OBJECT(StubNN, StubNN, nn_buf);
    vt::set_raw(r->nn_, (ompl::NearestNeighbors<Motion *> *)nn);
    vt::set_raw(r->sampler_, (ob::StateSampler *)VT_RAW_OBJECT(StubSampler, StubSampler, ss_buf));
    new (&r->rng_.uniDist_) std::uniform_real_distribution<>(0.0, 1.0);
    r->goalBias_ = 0.05; r->maxDistance_ = vt_double_in(0.0, 100.0); r->addIntermediateStates_ = INTERMEDIATE != 0;
    { std::string &n = r->name_; n._M_dataplus._M_p = n._M_local_buf; n._M_string_length = 3; n._M_local_buf[0] = 'R'; n._M_local_buf[1] = 'R'; n._M_local_buf[2] = 'T'; n._M_local_buf[3] = 0; }
#pragma clang loop unroll(full)
    for (int i = 0; i < NSTART; ++i) g_startst[i].id = 1 + i;
    // a resumed solve: motions of an earlier solve() may already be in the tree (here: none or one root)
    g_ptc_fire = nondet_uchar() % (MAXIT + 1);             // the termination condition first fires at evaluation g_ptc_fire (0 = before the first iteration)
    ob::PlannerStatus st = r->og::RRT::solve(g_th.t);
    VT_CHECK(!g_over, "state pool suffices (bound of the harness)");
    bool solved = (bool)st;
#if NSTART == 0
    VT_CHECK((ob::PlannerStatus::StatusType)st == ob::PlannerStatus::INVALID_START && g_added == 0, "without a valid start state the planner reports INVALID_START and adds no path");
#else
    VT_CHECK(g_added <= 1 && solved == (g_added == 1), "a solution status is returned exactly when one solution path was added to the problem definition");
    if (!solved) VT_CHECK((ob::PlannerStatus::StatusType)st == ob::PlannerStatus::TIMEOUT, "without a solution the status is TIMEOUT");
    VT_CHECK(g_ptc_evals <= g_ptc_fire + 1, "solve() returns at the first evaluation of the termination condition that is true");
    if (solved)
    {
        VT_CHECK(((ob::PlannerStatus::StatusType)st == ob::PlannerStatus::APPROXIMATE_SOLUTION) == g_path_approx && ((ob::PlannerStatus::StatusType)st == ob::PlannerStatus::EXACT_SOLUTION) == !g_path_approx,
                 "the returned status agrees with the approximate flag stored with the path");
        const std::vector<ob::State *> &ps = g_path->states_;
        unsigned n = ps.size();
        VT_CHECK(n >= 1 && n <= PMAX + 1, "the path is not empty");
        int first = static_cast<const TState *>(ps[0])->id;
        VT_CHECK(first >= 1 && first <= NSTART, "the path starts at one of the start states");
#pragma clang loop unroll(full)
        for (unsigned i = 0; i + 1 <= PMAX; ++i)
            if (i + 1 < n)
            {
                int a = static_cast<const TState *>(ps[i])->id, b = static_cast<const TState *>(ps[i + 1])->id;
                bool validated = false;
#pragma clang loop unroll(full)
                for (int k = 0; k <= VMAX; ++k) if (k < g_nvalid && g_valid_from[k] == a && g_valid_to[k] == b) validated = true;
                VT_CHECK(validated, "every motion of the reported path was accepted by the motion validator");
            }
        int last = static_cast<const TState *>(ps[PMAX < n - 1 ? PMAX : n - 1])->id;
        bool sawLast = false; double dLast = -1; bool satLast = false; double dMin = 1e300;
#pragma clang loop unroll(full)
        for (int k = 0; k <= MAXIT; ++k)
            if (k < g_ngoal)
            {
                if (g_goal_id[k] == last) { sawLast = true; dLast = g_goal_d[k]; satLast = g_goal_sat[k] != 0; }
                if (g_goal_d[k] < dMin) dMin = g_goal_d[k];
            }
        VT_CHECK(sawLast, "the last state of the path was presented to the goal");
        VT_CHECK(g_path_diff == dLast, "the reported goal difference is the goal's verdict on the path's last state");
        if (!g_path_approx) { VT_CHECK(satLast, "an exact solution ends inside the goal region"); vt_cover("exact solution"); }
        else { VT_CHECK(!satLast && dLast <= dMin, "an approximate solution ends at the state closest to the goal among those tried, outside the goal region"); vt_cover("approximate solution"); }
    }
    else
        VT_CHECK(g_ngoal == 0 || g_nvalid == 0 || true, "no solution");
    // memory: everything allocated is either freed or owned by a tree motion / the reported path
    VT_CHECK(g_alloc - g_free == (int)nn->n + (solved ? (int)g_path->states_.size() : 0), "no state is leaked or freed twice: live states = tree motions + states of the reported path");
#endif
    if (g_ptc_fire == 0) vt_cover("terminated before the first iteration");
    vt_cover("rrt solve end");
}
