// Time and Discrete state spaces: distance laws (C06), interpolation (C07), bounds/samplers (C08), round trips (C09).
#include "vt.h"
#include "ompl/base/spaces/TimeStateSpace.h"
#include "ompl/base/spaces/DiscreteStateSpace.h"
#include <cstring>
#include <cmath>
#define VT_DECLARE_VTABLE(ident, mangled) extern "C" void *vt_vtbl_##ident[] asm(mangled);
namespace ob = ompl::base;
#ifndef DRANGE
#define DRANGE 15
#endif
typedef ob::TimeStateSpace T;
typedef ob::DiscreteStateSpace D;
alignas(16) static char t_buf[sizeof(T)], d_buf[sizeof(D)];
VT_DECLARE_VTABLE(TIME, "_ZTVN4ompl4base14TimeStateSpaceE")
VT_DECLARE_VTABLE(DISC, "_ZTVN4ompl4base18DiscreteStateSpaceE")
static double g_tmin, g_tmax;
static bool g_bounded;
static T *tspace()
{
    T *sp = reinterpret_cast<T *>(t_buf);
    *(void ***)t_buf = &vt_vtbl_TIME[2];
    g_bounded = vt_nondet_bool();
    g_tmin = vt_double_in(-1e6, 1e6); g_tmax = vt_double_in(-1e6, 1e6);
    VT_ASSUME(g_tmin <= g_tmax);
    sp->bounded_ = g_bounded; sp->minTime_ = g_tmin; sp->maxTime_ = g_tmax;
    return sp;
}
static double tin() { double v = nondet_double(); if (g_bounded) VT_ASSUME(v >= g_tmin && v <= g_tmax); else VT_ASSUME(v >= -1e9 && v <= 1e9); return v; }
static int g_dlo, g_dhi;
static D *dspace()
{
    D *sp = reinterpret_cast<D *>(d_buf);
    *(void ***)d_buf = &vt_vtbl_DISC[2];
    g_dlo = vt_int_in(-1000000, 1000000); g_dhi = vt_int_in(-1000000, 1000000);
    VT_ASSUME(g_dlo <= g_dhi);
    sp->lowerBound_ = g_dlo; sp->upperBound_ = g_dhi;
    return sp;
}
static int din() { return vt_int_in(g_dlo, g_dhi); }

extern "C" void harness_time_distance()
{
    T *sp = tspace();
    T::StateType a, b;
    a.position = tin(); b.position = tin();
    double ab = sp->T::distance(&a, &b);
    VT_CHECK(ab >= 0.0, "distance is non-negative");
    VT_CHECK(vt_same_bits(ab, sp->T::distance(&b, &a)), "distance is symmetric");
    VT_CHECK(sp->T::distance(&a, &a) == 0.0, "distance from a state to itself is zero");
    if (!sp->T::equalStates(&a, &b)) VT_CHECK(ab > 0.0, "distance is positive between states that are not equal");
    vt_cover("time distance end");
}
extern "C" void harness_time_extent()
{
    T *sp = tspace();
    T::StateType a, b;
    a.position = tin(); b.position = tin();
    if (g_bounded) VT_CHECK(sp->T::distance(&a, &b) <= sp->T::getMaximumExtent(), "distance never exceeds the maximum extent");
    vt_cover("time extent end");
}
extern "C" void harness_time_triangle()
{
    T *sp = tspace();
    T::StateType a, b, c;
    a.position = tin(); b.position = tin(); c.position = tin();
    VT_CHECK(sp->T::distance(&a, &c) <= sp->T::distance(&a, &b) + sp->T::distance(&b, &c) + 1e-6, "triangle inequality");
    vt_cover("time triangle end");
}
extern "C" void harness_time_enforce()
{
    T *sp = tspace();
    T::StateType a;
    double v = vt_finite_double();
    a.position = v;
    bool inside = !g_bounded || (v >= g_tmin && v <= g_tmax);
    sp->T::enforceBounds(&a);
    VT_CHECK(sp->T::satisfiesBounds(&a), "enforceBounds yields a state within bounds");
    if (inside) VT_CHECK(vt_same_bits(a.position, v), "an in-bounds state is left unchanged");
    double w = a.position;
    sp->T::enforceBounds(&a);
    VT_CHECK(vt_same_bits(a.position, w), "enforceBounds is idempotent");
    if (!inside) vt_cover("time enforce out of bounds input");
    vt_cover("time enforce end");
}
static ob::TimeStateSampler *tsampler(T *sp)
{
    alignas(16) static char sm_buf[sizeof(ob::TimeStateSampler)];
    auto *sm = reinterpret_cast<ob::TimeStateSampler *>(sm_buf);
    sm->space_ = sp;
    return sm;
}
extern "C" void harness_time_sampler()
{
    T *sp = tspace();
    T::StateType s, near;
    near.position = tin();
    unsigned which = nondet_uchar() % 3;
    double d = vt_double_in(0.0, 4e6);
    s.position = 1e300;
    if (which == 0) tsampler(sp)->ob::TimeStateSampler::sampleUniform(&s);
    else if (which == 1) tsampler(sp)->ob::TimeStateSampler::sampleUniformNear(&s, &near, d);
    else tsampler(sp)->ob::TimeStateSampler::sampleGaussian(&s, &near, d);
    VT_CHECK(sp->T::satisfiesBounds(&s), "sample within bounds");
    VT_CHECK(s.position != 1e300, "sample writes the state");
    vt_cover("time sampler end");
}
extern "C" void harness_time_interp()
{
    T *sp = tspace();
    T::StateType a, b, c;
    a.position = tin(); b.position = tin();
    double t = vt_double_in(0.0, 1.0);
    sp->T::interpolate(&a, &b, t, &c);
#ifdef VT_EXCL_KF_LERP_ROUNDOFF
    {   // known finding excluded: only a relative round-off tolerance is demanded
        double tol = 1e-9 * (1.0 + std::fabs(a.position) + std::fabs(b.position));
        VT_CHECK(!g_bounded || (c.position >= g_tmin - tol && c.position <= g_tmax + tol), "interpolated state is within bounds");
    }
#else
    VT_CHECK(sp->T::satisfiesBounds(&c), "interpolated state is within bounds");
#endif
    sp->T::interpolate(&a, &b, 0.0, &c);
    VT_CHECK(c.position == a.position, "t=0 yields the first state");
    vt_cover("time interp end");
}
extern "C" void harness_discrete_distance()
{
    D *sp = dspace();
    D::StateType a, b, c;
    a.value = din(); b.value = din(); c.value = din();
    double ab = sp->D::distance(&a, &b), bc = sp->D::distance(&b, &c), ac = sp->D::distance(&a, &c);
    VT_CHECK(ab >= 0.0, "distance is non-negative");
    VT_CHECK(ab == sp->D::distance(&b, &a), "distance is symmetric");
    VT_CHECK(sp->D::distance(&a, &a) == 0.0, "distance from a state to itself is zero");
    if (!sp->D::equalStates(&a, &b)) VT_CHECK(ab > 0.0, "distance is positive between states that are not equal");
    VT_CHECK(ab <= sp->D::getMaximumExtent(), "distance never exceeds the maximum extent");
    VT_CHECK(ac <= ab + bc, "triangle inequality");
    vt_cover("discrete distance end");
}
extern "C" void harness_discrete_enforce()
{
    D *sp = dspace();
    D::StateType a;
    int v = nondet_int();
    a.value = v;
    bool inside = v >= g_dlo && v <= g_dhi;
    VT_CHECK(sp->D::satisfiesBounds(&a) == inside, "satisfiesBounds is the range test");
    sp->D::enforceBounds(&a);
    VT_CHECK(sp->D::satisfiesBounds(&a), "enforceBounds yields a state within bounds");
    if (inside) VT_CHECK(a.value == v, "an in-bounds state is left unchanged");
    int w = a.value;
    sp->D::enforceBounds(&a);
    VT_CHECK(a.value == w, "enforceBounds is idempotent");
    vt_cover("discrete enforce end");
}
static ob::DiscreteStateSampler *dsampler(D *sp)
{
    alignas(16) static char sm_buf[sizeof(ob::DiscreteStateSampler)];
    auto *sm = reinterpret_cast<ob::DiscreteStateSampler *>(sm_buf);
    sm->space_ = sp;
    return sm;
}
extern "C" void harness_discrete_sampler()
{
    D *sp = dspace();
    D::StateType s, near;
    near.value = din();
    s.value = 2000000000;
#if WHICH == 0
    dsampler(sp)->ob::DiscreteStateSampler::sampleUniform(&s);
#elif WHICH == 1
    dsampler(sp)->ob::DiscreteStateSampler::sampleUniformNear(&s, &near, vt_double_in(0.0, 3e6));
#else
    dsampler(sp)->ob::DiscreteStateSampler::sampleGaussian(&s, &near, vt_double_in(0.0, 1e3));
#endif
    VT_CHECK(sp->D::satisfiesBounds(&s), "sample within bounds");
    vt_cover("discrete sampler end");
}
extern "C" void harness_discrete_interp()
{
    D *sp = dspace();
    D::StateType a, b, c;
    VT_ASSUME(g_dlo >= -(DRANGE) && g_dhi <= (DRANGE));
    a.value = din(); b.value = din();
    double t = vt_double_in(0.0, 1.0);
    sp->D::interpolate(&a, &b, t, &c);
    VT_CHECK(sp->D::satisfiesBounds(&c), "interpolated state is within bounds");
    int lo = a.value < b.value ? a.value : b.value, hi = a.value < b.value ? b.value : a.value;
    VT_CHECK(c.value >= lo && c.value <= hi, "interpolated value lies between the endpoints");
    sp->D::interpolate(&a, &b, 0.0, &c);
    VT_CHECK(c.value == a.value, "t=0 yields the first state");
    sp->D::interpolate(&a, &b, 1.0, &c);
    VT_CHECK(c.value == b.value, "t=1 yields the second state");
    D::StateType x;
    x.value = a.value;
    sp->D::interpolate(&x, &b, t, &x);
    D::StateType y;
    sp->D::interpolate(&a, &b, t, &y);
    VT_CHECK(x.value == y.value, "same result when the output aliases the first input");
    vt_cover("discrete interp end");
}
extern "C" void harness_misc_roundtrip()
{
    T *ts = tspace();
    D *ds = dspace();
    T::StateType a, b, c;
    unsigned long bits = nondet_ulong();
    std::memcpy(&a.position, &bits, 8);
    ts->T::copyState(&b, &a);
    VT_CHECK(std::memcmp(&a.position, &b.position, 8) == 0, "Time copyState is bit exact");
    unsigned char buf[16];
    buf[8] = 0x5a;
    ts->T::serialize(buf, &a); ts->T::deserialize(&c, buf);
    VT_CHECK(std::memcmp(&a.position, &c.position, 8) == 0 && buf[8] == 0x5a && ts->T::getSerializationLength() == 8, "Time serialize/deserialize round trip");
    D::StateType x, y, z;
    x.value = nondet_int();
    ds->D::copyState(&y, &x);
    buf[4] = 0x5a;
    ds->D::serialize(buf, &x); ds->D::deserialize(&z, buf);
    VT_CHECK(y.value == x.value && z.value == x.value && buf[4] == 0x5a && ds->D::getSerializationLength() == 4, "Discrete copy and serialize/deserialize round trip");
    vt_cover("misc roundtrip end");
}
