// C09: the ordering that StateSpace::getCommonSubspaces() uses to collect the subspaces two spaces have in common
// (std::set<SubstateLocation, CompareSubstateLocation>): a set keeps one element per equivalence class of its comparator,
// so the comparator must be a strict weak order whose equivalence classes contain ONE subspace each - otherwise a common
// component is silently dropped from partial copies.  StateSpace.cpp is included so that the comparator is visible.
#include "vt.h"
#include "ompl/base/src/StateSpace.cpp"
#include <cstring>
#include <new>
namespace ob = ompl::base;
void ompl::msg::log(const char *, int, LogLevel, const char *, ...) {}
static unsigned g_dim[3];
struct StubSpace : ob::StateSpace
{
    unsigned int getDimension() const override { return g_dim[this->longestValidSegmentCountFactor_]; }   // (index stored in an unused scalar member)
    double getMaximumExtent() const override { return 1; }
    double getMeasure() const override { return 1; }
    void enforceBounds(ob::State *) const override {}
    bool satisfiesBounds(const ob::State *) const override { return true; }
    void copyState(ob::State *, const ob::State *) const override {}
    double distance(const ob::State *, const ob::State *) const override { return 0; }
    bool equalStates(const ob::State *, const ob::State *) const override { return false; }
    void interpolate(const ob::State *, const ob::State *, double, ob::State *) const override {}
    ob::StateSamplerPtr allocDefaultStateSampler() const override { return ob::StateSamplerPtr(); }
    ob::State *allocState() const override { return nullptr; }
    void freeState(ob::State *) const override {}
};
extern "C" void *vt_vtbl_StubSpace[] asm("_ZTV9StubSpace");
extern "C" void vt_force_vtable() { StubSpace *p = new StubSpace(); (void)p; }
union SB { StubSpace s; char raw[sizeof(StubSpace)]; SB() {} ~SB() {} };
static SB g_sp[3];
extern "C" void harness_common_subspace_order()
{
    ob::StateSpace::SubstateLocation loc[3];
    char nm[3];
#pragma clang loop unroll(full)
    for (int i = 0; i < 3; ++i)
    {
        std::memset(g_sp[i].raw, 0, sizeof g_sp[i].raw);
        *(void ***)g_sp[i].raw = &vt_vtbl_StubSpace[2];
        g_sp[i].s.longestValidSegmentCountFactor_ = i;
        g_dim[i] = nondet_uchar() & 3;
        nm[i] = (char)('a' + (nondet_uchar() & 3));
        {   // names: one symbolic letter, the small-string representation written by hand (the constructors live in libstdc++.so)
            std::string &n = g_sp[i].s.name_;
            n._M_dataplus._M_p = n._M_local_buf; n._M_string_length = 1; n._M_local_buf[0] = nm[i]; n._M_local_buf[1] = 0;
        }
        loc[i].space = &g_sp[i].s;
    }
    ompl::base::CompareSubstateLocation lt;
    bool ab = lt(loc[0], loc[1]), ba = lt(loc[1], loc[0]), bc = lt(loc[1], loc[2]), ac = lt(loc[0], loc[2]), cb = lt(loc[2], loc[1]), ca = lt(loc[2], loc[0]);
    VT_CHECK(!lt(loc[0], loc[0]), "the order is irreflexive");
    VT_CHECK(!(ab && ba), "the order is asymmetric");
    if (ab && bc) VT_CHECK(ac, "the order is transitive");
    if (!ab && !ba && !bc && !cb) VT_CHECK(!ac && !ca, "equivalence is transitive");
    bool same01 = g_dim[0] == g_dim[1] && nm[0] == nm[1];
    VT_CHECK((!ab && !ba) == same01, "two subspace locations are equivalent for the set exactly when they have the same dimension and the same name: no common subspace is merged with another one");
    if (!same01 && g_dim[0] == g_dim[1]) vt_cover("distinct subspaces of equal dimension");
    vt_cover("common subspace order end");
}
