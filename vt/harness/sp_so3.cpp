// SO(3): consistency of distance()/equalStates() (C06) and the zero-angle branch of interpolate() (C07).
#include "vt.h"
#include "ompl/base/spaces/SO3StateSpace.h"
namespace ob = ompl::base;
typedef ob::SO3StateSpace S;
union SH { S s; SH() {} ~SH() {} };
static SH g_h;
static S *space() { return &g_h.s; }
static void any(S::StateType &q) { q.x = vt_double_in(-2, 2); q.y = vt_double_in(-2, 2); q.z = vt_double_in(-2, 2); q.w = vt_double_in(-2, 2); }
static void inb(S::StateType &q) { any(q); VT_ASSUME(space()->S::satisfiesBounds(&q)); }
extern "C" void harness_so3_metric()
{
    S *sp = space();
    S::StateType a, b;
    inb(a); inb(b);
    double ab = sp->S::distance(&a, &b), ba = sp->S::distance(&b, &a);
    VT_CHECK(ab >= 0.0, "distance is non-negative");
    VT_CHECK(vt_same_bits(ab, ba), "distance is symmetric");
    VT_CHECK(ab <= sp->S::getMaximumExtent(), "distance never exceeds the maximum extent");
    if (!sp->S::equalStates(&a, &b)) VT_CHECK(ab > 0.0, "distance is positive between states that are not equal");
    if (!sp->S::equalStates(&a, &b)) vt_cover("non-equal pair");
    vt_cover("so3 metric end");
}
extern "C" void harness_so3_self()
{
    S *sp = space();
    S::StateType a;
    inb(a);
#ifdef VT_EXCL_KF_SO3_SELF
    VT_ASSUME(a.x * a.x + a.y * a.y + a.z * a.z + a.w * a.w > 1.0 - 1e-9);   // known finding excluded: squared norm not above 1 - 1e-9
#endif
    VT_CHECK(sp->S::distance(&a, &a) == 0.0, "distance from a state to itself is zero");
    VT_CHECK(sp->S::equalStates(&a, &a), "a state equals itself");
    vt_cover("so3 self end");
}
// interpolation between (nearly) coincident or antipodal quaternions: the result must stay a unit quaternion
extern "C" void harness_so3_zero_angle()
{
    S *sp = space();
    S::StateType a, b, c;
    inb(a); inb(b);
    VT_ASSUME(sp->S::distance(&a, &b) == 0.0);       // same rotation (q ~ q or q ~ -q)
    double t = vt_double_in(0.0, 1.0);
    c.x = c.y = c.z = c.w = 9.0;
    sp->S::interpolate(&a, &b, t, &c);
    VT_CHECK(sp->S::satisfiesBounds(&c), "interpolated state is within bounds");
    VT_CHECK(sp->S::distance(&a, &c) == 0.0, "interpolating between two representations of one rotation stays on that rotation");
    vt_cover("so3 zero angle end");
}

// the two quaternions q and -q denote the same rotation: whenever their distance is 0 they must compare equal
extern "C" void harness_so3_antipodal()
{
    S *sp = space();
    S::StateType a, b;
    inb(a);
    bool neg = vt_nondet_bool();
    b.x = neg ? -a.x : a.x; b.y = neg ? -a.y : a.y; b.z = neg ? -a.z : a.z; b.w = neg ? -a.w : a.w;
    double d = sp->S::distance(&a, &b);
    VT_CHECK(d >= 0.0, "distance is non-negative");
    if (!sp->S::equalStates(&a, &b)) VT_CHECK(d > 0.0, "distance is positive between states that are not equal");
    if (neg) vt_cover("antipodal pair");
    vt_cover("so3 antipodal end");
}
extern "C" void harness_so3_same_rotation_interp()
{
    S *sp = space();
    S::StateType a, b, c;
    inb(a);
    bool neg = vt_nondet_bool();
    b.x = neg ? -a.x : a.x; b.y = neg ? -a.y : a.y; b.z = neg ? -a.z : a.z; b.w = neg ? -a.w : a.w;
    VT_ASSUME(sp->S::distance(&a, &b) == 0.0);
    double t = vt_double_in(0.0, 1.0);
    c.x = c.y = c.z = c.w = 9.0;
    sp->S::interpolate(&a, &b, t, &c);
    VT_CHECK(sp->S::satisfiesBounds(&c), "interpolated state is within bounds");
    if (neg) vt_cover("antipodal pair");
    vt_cover("so3 same rotation end");
}
