// R^n (RealVectorStateSpace): distance laws (C06), interpolation (C07), bounds and samplers (C08), round trips (C09).
// The space object is a zeroed buffer in which dimension_, stateBytes_ and bounds_ are set directly (the constructor
// builds names/params no method under test reads); dimension DIM is concrete per query, bounds are symbolic.
#include "vt.h"
#include "ompl/base/spaces/RealVectorStateSpace.h"
#include <cstring>
#define VT_DECLARE_VTABLE(ident, mangled) extern "C" void *vt_vtbl_##ident[] asm(mangled);
namespace ob = ompl::base;
typedef ob::RealVectorStateSpace S;
#ifndef DIM
#define DIM 1
#endif
#ifndef BMAX
#define BMAX 1e6
#endif
// typed, zero-initialised storage whose constructor/destructor never run (a char buffer would make CBMC treat the members
// byte-wise, e.g. stateBytes_ as a symbolic memcpy length)
union SpaceHolder { S s; SpaceHolder() {} ~SpaceHolder() {} };
static SpaceHolder g_holder;
#define sp_buf ((char *)&g_holder)
static double g_lo[DIM], g_hi[DIM];
VT_DECLARE_VTABLE(RV, "_ZTVN4ompl4base20RealVectorStateSpaceE")
static S *space()
{
    S *sp = reinterpret_cast<S *>(sp_buf);
    *(void ***)sp_buf = &vt_vtbl_RV[2];
    sp->dimension_ = DIM;
    sp->stateBytes_ = DIM * sizeof(double);
    new (&sp->bounds_.low) std::vector<double>();
    new (&sp->bounds_.high) std::vector<double>();
    for (int i = 0; i < DIM; ++i)
    {
        g_lo[i] = vt_double_in(-BMAX, BMAX);
        g_hi[i] = vt_double_in(-BMAX, BMAX);
        VT_ASSUME(g_lo[i] <= g_hi[i]);          // includes zero-width and negative ranges
        sp->bounds_.low.push_back(g_lo[i]);
        sp->bounds_.high.push_back(g_hi[i]);
    }
    return sp;
}
struct St : S::StateType { double v[DIM]; St() { values = v; } };
static void inb(St &s) { for (int i = 0; i < DIM; ++i) { s.v[i] = nondet_double(); VT_ASSUME(s.v[i] >= g_lo[i] && s.v[i] <= g_hi[i]); } }

extern "C" void harness_rv_distance()
{
    S *sp = space();
    St a, b;
    inb(a); inb(b);
    double ab = sp->S::distance(&a, &b);
    VT_CHECK(ab >= 0.0, "distance is non-negative");
    VT_CHECK(sp->S::distance(&a, &a) == 0.0, "distance from a state to itself is zero");
    VT_CHECK(sp->S::equalStates(&a, &a), "a state equals itself");
    vt_cover("rv distance end");
}
extern "C" void harness_rv_symmetric()
{
    S *sp = space();
    St a, b;
    inb(a); inb(b);
    VT_CHECK(vt_same_bits(sp->S::distance(&a, &b), sp->S::distance(&b, &a)), "distance is symmetric");
    vt_cover("rv symmetric end");
}
extern "C" void harness_rv_positive()
{
    S *sp = space();
    St a, b;
    inb(a); inb(b);
    if (!sp->S::equalStates(&a, &b)) VT_CHECK(sp->S::distance(&a, &b) > 0.0, "distance is positive between states that are not equal");
    vt_cover("rv positive end");
}
extern "C" void harness_rv_extent()
{
    S *sp = space();
    St a, b;
    inb(a); inb(b);
    VT_CHECK(sp->S::distance(&a, &b) <= sp->S::getMaximumExtent(), "distance never exceeds the maximum extent");
    vt_cover("rv extent end");
}
extern "C" void harness_rv_enforce()
{
    S *sp = space();
    St a, orig;
    bool changed = false;
    for (int i = 0; i < DIM; ++i) { a.v[i] = vt_finite_double(); orig.v[i] = a.v[i]; }
    bool strictly = true;
    for (int i = 0; i < DIM; ++i) strictly = strictly && a.v[i] >= g_lo[i] && a.v[i] <= g_hi[i];
    sp->S::enforceBounds(&a);
    VT_CHECK(sp->S::satisfiesBounds(&a), "enforceBounds yields a state within bounds");
    for (int i = 0; i < DIM; ++i)
    {
        VT_CHECK(a.v[i] >= g_lo[i] && a.v[i] <= g_hi[i], "enforced values lie inside [low, high]");
        if (strictly) VT_CHECK(vt_same_bits(a.v[i], orig.v[i]), "an in-bounds state is left unchanged");
        if (!vt_same_bits(a.v[i], orig.v[i])) changed = true;
    }
    St c;
    for (int i = 0; i < DIM; ++i) c.v[i] = a.v[i];
    sp->S::enforceBounds(&a);
    for (int i = 0; i < DIM; ++i) VT_CHECK(vt_same_bits(a.v[i], c.v[i]), "enforceBounds is idempotent");
    if (changed) vt_cover("rv enforce changed something");
    vt_cover("rv enforce end");
}
static ob::RealVectorStateSampler *sampler(S *sp)
{
    alignas(16) static char sm_buf[sizeof(ob::RealVectorStateSampler)];
    auto *sm = reinterpret_cast<ob::RealVectorStateSampler *>(sm_buf);
    sm->space_ = sp;
    return sm;
}
extern "C" void harness_rv_sample_uniform()
{
    S *sp = space();
    St s;
    for (int i = 0; i < DIM; ++i) s.v[i] = 1e300;
    sampler(sp)->ob::RealVectorStateSampler::sampleUniform(&s);
    VT_CHECK(sp->S::satisfiesBounds(&s), "uniform sample within bounds");
    vt_cover("rv uniform end");
}
extern "C" void harness_rv_sample_near()
{
    S *sp = space();
    St s, near;
    inb(near);
    for (int i = 0; i < DIM; ++i) s.v[i] = 1e300;
    double d = vt_double_in(0.0, 4 * BMAX);
    sampler(sp)->ob::RealVectorStateSampler::sampleUniformNear(&s, &near, d);
    VT_CHECK(sp->S::satisfiesBounds(&s), "near sample within bounds");
    vt_cover("rv near end");
}
extern "C" void harness_rv_sample_gaussian()
{
    S *sp = space();
    St s, near;
    inb(near);
    for (int i = 0; i < DIM; ++i) s.v[i] = 1e300;
    double d = vt_double_in(0.0, 4 * BMAX);
    sampler(sp)->ob::RealVectorStateSampler::sampleGaussian(&s, &near, d);
    VT_CHECK(sp->S::satisfiesBounds(&s), "gaussian sample within bounds");
    vt_cover("rv gaussian end");
}
extern "C" void harness_rv_interp_bounds()
{
    S *sp = space();
    St a, b, c;
    inb(a); inb(b);
    double t = vt_double_in(0.0, 1.0);
    sp->S::interpolate(&a, &b, t, &c);
#ifdef VT_EXCL_KF_LERP_ROUNDOFF
    for (int i = 0; i < DIM; ++i)
    {   // known finding excluded: only a relative round-off tolerance is demanded
        double tol = 1e-9 * (1.0 + __builtin_fabs(a.v[i]) + __builtin_fabs(b.v[i]));
        VT_CHECK(c.v[i] >= g_lo[i] - tol && c.v[i] <= g_hi[i] + tol, "interpolated state is within bounds");
    }
#else
    VT_CHECK(sp->S::satisfiesBounds(&c), "interpolated state is within bounds");
#endif
    vt_cover("rv interp bounds end");
}
extern "C" void harness_rv_t0()
{
    S *sp = space();
    St a, b, c;
    inb(a); inb(b);
    sp->S::interpolate(&a, &b, 0.0, &c);
    for (int i = 0; i < DIM; ++i) VT_CHECK(c.v[i] == a.v[i], "t=0 yields the first state");
    vt_cover("rv t0 end");
}
extern "C" void harness_rv_interp_alias()
{
    S *sp = space();
    St a, b, c, x;
    inb(a); inb(b);
    double t = vt_double_in(0.0, 1.0);
    sp->S::interpolate(&a, &b, t, &c);
#if ALIAS == 1
    for (int i = 0; i < DIM; ++i) x.v[i] = a.v[i];
    sp->S::interpolate(&x, &b, t, &x);
#else
    for (int i = 0; i < DIM; ++i) x.v[i] = b.v[i];
    sp->S::interpolate(&a, &x, t, &x);
#endif
    for (int i = 0; i < DIM; ++i) VT_CHECK(vt_same_bits(x.v[i], c.v[i]), "same result when the output aliases an input");
    vt_cover("rv interp alias end");
}
extern "C" void harness_rv_roundtrip()
{
    S *sp = space();
    St a, b, c;
    for (int i = 0; i < DIM; ++i) { unsigned long bits = nondet_ulong(); std::memcpy(&a.v[i], &bits, 8); b.v[i] = 1; c.v[i] = 2; }
    sp->S::copyState(&b, &a);
    VT_CHECK(std::memcmp(a.v, b.v, sizeof a.v) == 0, "copyState copies the state bit for bit");
    unsigned char buf[DIM * 8 + 8];
    VT_CHECK(sp->S::getSerializationLength() == DIM * 8, "serialization length");
    buf[DIM * 8] = 0x5a;
    sp->S::serialize(buf, &a);
    sp->S::deserialize(&c, buf);
    VT_CHECK(std::memcmp(a.v, c.v, sizeof a.v) == 0, "serialize then deserialize reproduces the state bit for bit");
    VT_CHECK(buf[DIM * 8] == 0x5a, "serialize writes only its own length");
    vt_cover("rv roundtrip end");
}
