// C02: propagation kernels of control::SpaceInformation and SimpleDirectedControlSampler::getBestControl against a stub
// propagator (successor function on a step counter), symbolic validity per reached state, symbolic sampled controls/durations.
#include "vt_ompl.h"
#include "ompl/control/SpaceInformation.h"
#include "ompl/control/SimpleDirectedControlSampler.h"
#include "ompl/control/ControlSampler.h"
VT_CUT_STATESPACE_CTOR
namespace oc = ompl::control;
#ifndef STEPS
#define STEPS 3
#endif
#define MAXK (STEPS + 2)
struct TState : ob::State { int k; int ctrl; };
struct TControl : oc::Control { int id; };
static unsigned char g_valid[3][2 * MAXK + 1];      // validity of the state reached after k steps of control c
static double g_distv[3][2 * MAXK + 1];
static int g_calls, g_bad, g_alloc, g_free;
static double g_step;
static TState g_pool[STEPS + 6];
struct StubSpace : ob::StateSpace
{
    unsigned int getDimension() const override { return 1; }
    double getMaximumExtent() const override { return 1; }
    double getMeasure() const override { return 1; }
    void enforceBounds(ob::State *) const override {}
    bool satisfiesBounds(const ob::State *) const override { return true; }
    void copyState(ob::State *d, const ob::State *s) const override { static_cast<TState *>(d)->k = static_cast<const TState *>(s)->k; static_cast<TState *>(d)->ctrl = static_cast<const TState *>(s)->ctrl; }
    double distance(const ob::State *a, const ob::State *) const override
    {
        const TState *s = static_cast<const TState *>(a);
        if (s->ctrl < 0 || s->ctrl > 2 || s->k < -MAXK || s->k > MAXK) return 1e9;
        return g_distv[s->ctrl][s->k + MAXK];
    }
    bool equalStates(const ob::State *, const ob::State *) const override { return false; }
    void interpolate(const ob::State *, const ob::State *, double, ob::State *) const override {}
    ob::StateSamplerPtr allocDefaultStateSampler() const override { return ob::StateSamplerPtr(); }
    ob::State *allocState() const override { TState *s = &g_pool[g_alloc < STEPS + 5 ? g_alloc : STEPS + 5]; ++g_alloc; s->k = -99; s->ctrl = -9; return s; }
    void freeState(ob::State *) const override { ++g_free; }
};
struct StubSVC : ob::StateValidityChecker
{
    StubSVC() : ob::StateValidityChecker((ob::SpaceInformation *)nullptr) {}
    bool isValid(const ob::State *s) const override
    {
        const TState *t = static_cast<const TState *>(s);
        if (t->ctrl < 0 || t->ctrl > 2 || t->k < -MAXK || t->k > MAXK) { g_bad = 1; return false; }
        return g_valid[t->ctrl][t->k + MAXK];
    }
};
struct StubProp : oc::StatePropagator
{
    StubProp() : oc::StatePropagator((oc::SpaceInformation *)nullptr) {}
    void propagate(const ob::State *s, const oc::Control *c, double duration, ob::State *r) const override
    {
        ++g_calls;
        int dir = duration == g_step ? 1 : (duration == -g_step ? -1 : 0);
        if (dir == 0) g_bad = 1;                              // every step must last exactly one propagation step
        int k = static_cast<const TState *>(s)->k;
        static_cast<TState *>(r)->k = k + dir;
        static_cast<TState *>(r)->ctrl = static_cast<const TControl *>(c)->id;
    }
};
struct StubCS : oc::ControlSpace
{
    StubCS() : oc::ControlSpace(ob::StateSpacePtr()) {}
    unsigned int getDimension() const override { return 1; }
    oc::Control *allocControl() const override { static TControl pool[3]; static int n; return &pool[n < 2 ? n++ : 2]; }
    void freeControl(oc::Control *) const override {}
    void copyControl(oc::Control *d, const oc::Control *s) const override { static_cast<TControl *>(d)->id = static_cast<const TControl *>(s)->id; }
    bool equalControls(const oc::Control *, const oc::Control *) const override { return false; }
    void nullControl(oc::Control *) const override {}
    oc::ControlSamplerPtr allocDefaultControlSampler() const override { return oc::ControlSamplerPtr(); }
};
static int g_nsamp;
static unsigned g_minS, g_maxS;
struct StubSampler : oc::ControlSampler
{
    StubSampler() : oc::ControlSampler(nullptr) {}
    void sample(oc::Control *c) override { static_cast<TControl *>(c)->id = g_nsamp < 2 ? g_nsamp : 2; ++g_nsamp; }
    void sample(oc::Control *c, const ob::State *) override { sample(c); }
    void sampleNext(oc::Control *c, const oc::Control *) override { sample(c); }
    void sampleNext(oc::Control *c, const oc::Control *, const ob::State *) override { sample(c); }
    unsigned int sampleStepCount(unsigned int mn, unsigned int mx) override { if (mn != g_minS || mx != g_maxS) g_bad = 1; unsigned v = nondet_uint(); VT_ASSUME(v >= mn && v <= mx); return v; }
};
VT_DECLARE_VTABLE(StubCS, "_ZTV6StubCS")
VT_DECLARE_VTABLE(StubSampler, "_ZTV11StubSampler")
VT_DECLARE_VTABLE(CSI, "_ZTVN4ompl7control16SpaceInformationE")
extern "C" void vt_force_vtable() { StubCS *p = new StubCS(); StubSampler *q = new StubSampler(); (void)p; (void)q; }
alignas(16) static char sp_buf[sizeof(StubSpace)], svc_buf[sizeof(StubSVC)], pr_buf[sizeof(StubProp)], cs_buf[sizeof(StubCS)], sm_buf[sizeof(StubSampler)];
union SIH { oc::SpaceInformation si; char raw[sizeof(oc::SpaceInformation)]; SIH() {} ~SIH() {} };
static SIH g_sih;
static oc::SpaceInformation *setup()
{
    std::memset(g_sih.raw, 0, sizeof g_sih.raw);
    oc::SpaceInformation *si = &g_sih.si;
    *(void ***)si = &vt_vtbl_CSI[2];
    vt::set_raw(si->stateSpace_, (ob::StateSpace *)new (sp_buf) StubSpace());
    vt::set_raw(si->stateValidityChecker_, (ob::StateValidityChecker *)new (svc_buf) StubSVC());
    vt::set_raw(si->statePropagator_, (oc::StatePropagator *)new (pr_buf) StubProp());
    vt::set_raw(si->controlSpace_, (oc::ControlSpace *)VT_RAW_OBJECT(StubCS, StubCS, cs_buf));
    si->setup_ = true;
    g_step = vt_double_in(1e-6, 10.0);
    si->stepSize_ = g_step;
#pragma clang loop unroll(full)
    for (int c = 0; c < 3; ++c)
#pragma clang loop unroll(full)
        for (int k = 0; k <= 2 * MAXK; ++k) { g_valid[c][k] = nondet_uchar() & 1; g_distv[c][k] = (double)(nondet_uchar() & 15); }
    return si;
}
static int run_len(int c, int sign, int steps)
{   // number of consecutive valid states along the propagation (reference)
    int r = 0;
    for (int j = 1; j <= STEPS; ++j) if (j <= steps && r == j - 1 && g_valid[c][sign * j + MAXK]) r = j;
    return r;
}
extern "C" void harness_propagate()
{
    oc::SpaceInformation *si = setup();
    TState s, r; TControl c;
    s.k = 0; s.ctrl = 1; c.id = 1; r.k = 55; r.ctrl = 7;
    int sign = vt_nondet_bool() ? 1 : -1;
    si->oc::SpaceInformation::propagate(&s, &c, sign * STEPS, &r);
    VT_CHECK(!g_bad, "every propagation call lasts exactly one signed step");
    VT_CHECK(g_calls == STEPS, "one propagator call per step");
    VT_CHECK(r.k == sign * STEPS && (STEPS == 0 || r.ctrl == 1), "the result is the state after exactly the requested number of steps");
    VT_CHECK(s.k == 0, "the start state is untouched");
    // aliased output (documented as allowed for propagate)
    g_calls = 0;
    si->oc::SpaceInformation::propagate(&s, &c, sign * STEPS, &s);
    VT_CHECK(s.k == sign * STEPS && g_calls == STEPS, "same result when the output aliases the start state");
    vt_cover("propagate end");
}
extern "C" void harness_propagate_while_valid()
{
    oc::SpaceInformation *si = setup();
    TState s, r; TControl c;
    s.k = 0; s.ctrl = 1; c.id = 1; r.k = 55; r.ctrl = 7;
    int sign = vt_nondet_bool() ? 1 : -1;
    unsigned got = si->oc::SpaceInformation::propagateWhileValid(&s, &c, sign * STEPS, &r);
    int want = run_len(1, sign, STEPS);
    VT_CHECK(!g_bad, "every propagation call lasts exactly one signed step; only reached states are validity-checked");
    VT_CHECK((int)got == want, "returns the number of steps before the first invalid state");
    VT_CHECK(r.k == sign * want, "the result is the last valid state (the start state when the first step is invalid)");
    VT_CHECK(s.k == 0, "the start state is untouched");
    VT_CHECK(g_alloc == g_free, "temporary states are freed");
    vt_cover("propagateWhileValid end");
}
extern "C" void harness_propagate_while_valid_vector()
{
    oc::SpaceInformation *si = setup();
    TState s; TControl c;
    s.k = 0; s.ctrl = 1; c.id = 1;
    int sign = vt_nondet_bool() ? 1 : -1;
    std::vector<ob::State *> res;
    unsigned got = si->oc::SpaceInformation::propagateWhileValid(&s, &c, sign * STEPS, res, true);
    int want = run_len(1, sign, STEPS);
    VT_CHECK(!g_bad, "every propagation call lasts exactly one signed step");
    VT_CHECK((int)got == want && res.size() == (unsigned)want, "returns exactly the valid prefix of the propagation");
    for (int i = 0; i < STEPS; ++i)
        if (i < (int)res.size())
        {
            const TState *t = static_cast<const TState *>(res[i]);
            VT_CHECK(t->k == sign * (i + 1) && g_valid[1][t->k + MAXK], "state i is the valid state after i+1 steps");
        }
    VT_CHECK(g_alloc - g_free == want, "only the returned states stay allocated");
    vt_cover("propagateWhileValid(vector) end");
}
#ifndef NSAMP
#define NSAMP 2
#endif
extern "C" void harness_best_control()
{
    oc::SpaceInformation *si = setup();
    g_minS = 1 + (nondet_uchar() % STEPS); g_maxS = g_minS + (nondet_uchar() % (STEPS - g_minS + 1));
    si->minSteps_ = g_minS; si->maxSteps_ = g_maxS;
    union DH { oc::SimpleDirectedControlSampler d; DH() {} ~DH() {} };
    static DH dh;
    oc::SimpleDirectedControlSampler *d = &dh.d;
    d->si_ = si;
    vt::set_raw(d->cs_, (oc::ControlSampler *)VT_RAW_OBJECT(StubSampler, StubSampler, sm_buf));
    d->numControlSamples_ = NSAMP;
    TState src, dest; TControl out;
    src.k = 0; src.ctrl = 1; dest.k = 77; dest.ctrl = 8; out.id = -1;
    unsigned steps = d->oc::SimpleDirectedControlSampler::getBestControl(&out, &src, &dest, nullptr);
    VT_CHECK(!g_bad, "durations are drawn within [min,max]; every propagation call lasts exactly one step");
    VT_CHECK(out.id >= 0 && out.id < NSAMP, "the returned control is one of the sampled controls");
    VT_CHECK(steps <= g_maxS, "the returned duration does not exceed the maximum");
    if (steps > 0)
    {
        VT_CHECK(dest.ctrl == out.id && dest.k == (int)steps, "the returned state is what the returned control reaches in exactly the returned number of steps");
        for (int j = 1; j <= STEPS; ++j) if (j <= (int)steps) VT_CHECK(g_valid[out.id][j + MAXK], "every step of the returned motion lands on a valid state");
        vt_cover("a motion was returned");
    }
    else
        VT_CHECK(dest.k == 0, "with zero valid steps the returned state is the source state");
    VT_CHECK(src.k == 0, "the source state is untouched");
    vt_cover("best control end");
}
