// Harness-side API of the verification pipeline (see DESIGN.md §2).
// All externs are noexcept (no invoke/landing pads) and nomerge (one message per assertion).
#ifndef VT_H
#define VT_H
#include <cstdint>
extern "C"
{
    int nondet_int() noexcept;
    unsigned nondet_uint() noexcept;
    unsigned char nondet_uchar() noexcept;
    long nondet_long() noexcept;
    unsigned long nondet_ulong() noexcept;
    double nondet_double() noexcept;
    void __CPROVER_assume(int) noexcept;
    [[clang::nomerge]] void __CPROVER_assert(int, const char *) noexcept;
    [[clang::nomerge]] void vt_cover(const char *) noexcept;   // reachability witness point
    extern int vt_thrown;                                        // set by the __cxa_throw stub
}
#define VT_ASSUME(c) __CPROVER_assume(!!(c))
#define VT_CHECK(c, msg) __CPROVER_assert(!!(c), msg)
static inline bool vt_nondet_bool() { return (nondet_uchar() & 1) != 0; }
static inline double vt_finite_double()
{
    double v = nondet_double();
    __CPROVER_assume(v == v && v - v == 0.0);
    return v;
}
static inline double vt_double_in(double lo, double hi)
{
    double v = nondet_double();
    __CPROVER_assume(v >= lo && v <= hi);
    return v;
}
static inline bool vt_same_bits(double a, double b)
{
    union { double d; unsigned long u; } x, y;
    x.d = a; y.d = b;
    return x.u == y.u;
}
static inline int vt_int_in(int lo, int hi)
{
    int v = nondet_int();
    __CPROVER_assume(v >= lo && v <= hi);
    return v;
}
#endif
