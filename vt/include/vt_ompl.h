// Shared harness helpers: stub State / StateSpace / validity checker and a SpaceInformation built in a zeroed
// buffer (heavy constructors are never run; only the members the unit under test reads are set).
#ifndef VT_OMPL_H
#define VT_OMPL_H
#include <new>
#include <cstring>
#include <vector>
#include <memory>
#include "ompl/base/SpaceInformation.h"
#include "ompl/base/StateSpace.h"
#include "ompl/base/StateValidityChecker.h"
#include "ompl/base/MotionValidator.h"
#include "vt.h"
namespace ob = ompl::base;

// StateSpace() / ~StateSpace() and friends are overridden by the harness TU with empty bodies (they build strings,
// maps and parameter sets that no unit under test reads).
#define VT_CUT_STATESPACE_CTOR                                                      \
    ompl::base::StateSpace::StateSpace() {}                                         \
    ompl::base::StateSpace::~StateSpace() {}

namespace vt
{
    // set a std::shared_ptr<T> member to a raw pointer without a control block
    template <typename SP, typename T>
    static inline void set_raw(SP &sp, T *p)
    {
        void *q = (void *)p;
        std::memcpy((void *)&sp, &q, sizeof q);
    }
    struct SIBuf
    {
        // typed storage whose constructor/destructor never run (a char buffer makes CBMC treat the members byte-wise)
        union Store { ob::SpaceInformation si; char buf[sizeof(ob::SpaceInformation)]; Store() {} ~Store() {} } store;
        char *bufp() { return store.buf; }
        ob::SpaceInformation *si() { return &store.si; }
        // vtbl: &vt_vtbl_X[2] of SpaceInformation's vtable when the unit calls SpaceInformation's own virtual methods
        void init(ob::StateSpace *sp, ob::StateValidityChecker *svc, ob::MotionValidator *mv = nullptr, void **vtbl = nullptr)
        {
            std::memset(store.buf, 0, sizeof store.buf);
            *(void ***)store.buf = vtbl;
            set_raw(si()->stateSpace_, sp);
            set_raw(si()->stateValidityChecker_, svc);
            set_raw(si()->motionValidator_, mv);
            si()->setup_ = true;
        }
    };
}

// Objects of heavy real classes are never constructed: VT_RAW_OBJECT gives a zeroed buffer carrying only the class's
// vptr (taken from the class's vtable symbol), so that virtual dispatch reaches the harness overrides / real methods.
// VT_DECLARE_VTABLE(Class, "_ZTV<mangled>") must appear at namespace scope; the vtable is kept alive by this reference.
#define VT_DECLARE_VTABLE(ident, mangled) extern "C" void *vt_vtbl_##ident[] asm(mangled);
#define VT_RAW_OBJECT(Type, ident, buf) (std::memset((buf), 0, sizeof(Type)), *(void ***)(buf) = &vt_vtbl_##ident[2], reinterpret_cast<Type *>(buf))
#endif
