// Environment model of the random engine, force-included (-include) into every translation unit of a unit that
// draws random numbers: the 53-bit canonical uniform draw and the normal draw become nondeterministic values
// constrained only by their documented contract ([0,1) / finite).  OMPL's own RNG arithmetic stays real code.
#ifndef VT_RNG_ENV_H
#define VT_RNG_ENV_H
#include <random>
#include <limits>
extern "C" double nondet_double() noexcept;
extern "C" void __CPROVER_assume(int) noexcept;
#ifdef VT_RNG_RECORD
extern "C" double vt_last_canonical;
#endif
namespace std
{
    template <>
    inline double generate_canonical<double, numeric_limits<double>::digits, mt19937>(mt19937 &)
    {
        double r = nondet_double();
        __CPROVER_assume(r >= 0.0 && r < 1.0);
#ifdef VT_RNG_RECORD
        vt_last_canonical = r;                    // lets a harness relate an accept/reject decision to the draw behind it
#endif
        return r;
    }
    template <>
    template <>
    inline double normal_distribution<double>::operator()(mt19937 &, const param_type &p)
    {
        double r = nondet_double();
        __CPROVER_assume(r == r && r - r == 0.0);   // any finite standard-normal draw
#ifdef VT_NORMAL_ABS_MAX
        __CPROVER_assume(r >= -(VT_NORMAL_ABS_MAX) && r <= (VT_NORMAL_ABS_MAX));
#endif
        return r * p.stddev() + p.mean();
    }
}
#endif
