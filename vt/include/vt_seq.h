// Context-bounded sequentialization of two threads (DESIGN C19).  The pipeline (Query(yield_in=...)) inserts a call of
// vt_yield() before every memory access of the selected library functions.  vt_seq_run(A) runs thread A's operation; at
// ONE point chosen by the solver among all those accesses (or after A has finished) the whole operation of the other
// thread - vt_seq_other(), defined by the harness - runs without interruption.  Every schedule explored is a real
// schedule (thread A: prefix, thread B: all, thread A: rest), so a violation is a real interleaving and replays
// deterministically; schedules needing more than two context switches, and the reorderings of weaker memory models, are
// outside the claim.  Locks: vt_mutex_lock/unlock (vt/stubs/threads.c) - a lock held by the preempted thread makes the
// schedule infeasible (the other thread would block), it is cut by an assumption.
#ifndef VT_SEQ_H
#define VT_SEQ_H
#include "vt.h"
static void vt_seq_other();
static int vt_seq_state;           // 0 idle, 1 thread A running (B not yet run), 2 thread B running, 3 B done
static unsigned vt_seq_at, vt_seq_n, vt_seq_switched_at;
extern "C" void vt_yield()
{
    if (vt_seq_state != 1) return;
    if (vt_seq_n++ == vt_seq_at)
    {
        vt_seq_state = 2; vt_seq_switched_at = vt_seq_n;
        vt_seq_other();
        vt_seq_state = 3;
    }
}
template <typename F>
static inline void vt_seq_run(F threadA)
{
    vt_seq_n = 0; vt_seq_switched_at = 0;
    vt_seq_at = nondet_uint();
    vt_seq_state = 1;
    threadA();
    if (vt_seq_state == 1) { vt_seq_state = 2; vt_seq_other(); }
    vt_seq_state = 0;
}
#endif
