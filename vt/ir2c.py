#!/usr/bin/env python3
"""ir2c: LLVM-14 typed-pointer textual IR -> C translator used by the verification pipeline.

Anything the translator does not understand is a hard error (no silent skip).
Writes <out>.c and <out>.meta.json (defined functions, remaining externs, nondet call sites).
"""
import re, sys, struct

# ---------------------------------------------------------------- tokenizer
TOK = re.compile(r'''
    \s+ |
    (?P<str>c?"(?:[^"\\]|\\.)*") |
    (?P<lname>%"(?:[^"\\]|\\.)*"|%[-a-zA-Z$._0-9]+) |
    (?P<gname>@"(?:[^"\\]|\\.)*"|@[-a-zA-Z$._0-9]+) |
    (?P<meta>![-a-zA-Z$._0-9]*|!\{[^}]*\}) |
    (?P<attr>\#\d+) |
    (?P<num>-?\d+\.\d+(?:e[+-]?\d+)?|0x[KMLHR]?[0-9A-Fa-f]+|-?\d+) |
    (?P<word>[a-zA-Z_][a-zA-Z0-9_.]*) |
    (?P<dots>\.\.\.) |
    (?P<p>[()\[\]{}<>,=*:])
''', re.X)


def tokenize(s):
    out = []
    pos = 0
    while pos < len(s):
        m = TOK.match(s, pos)
        if not m:
            raise SyntaxError('tok: ' + s[pos:pos + 40])
        pos = m.end()
        k = m.lastgroup
        if k:
            out.append((k, m.group(k)))
    return out


# ---------------------------------------------------------------- types
class T:
    pass


class TInt(T):
    def __init__(s, n): s.n = n
    def __repr__(s): return 'i%d' % s.n


class TFloat(T):
    def __init__(s, k): s.k = k
    def __repr__(s): return s.k


class TVoid(T):
    def __repr__(s): return 'void'


class TPtr(T):
    def __init__(s, to): s.to = to
    def __repr__(s): return '%r*' % (s.to,)


class TArr(T):
    def __init__(s, n, el): s.n = n; s.el = el
    def __repr__(s): return '[%d x %r]' % (s.n, s.el)


class TStruct(T):
    def __init__(s, fields, packed=False, name=None): s.fields = fields; s.packed = packed; s.name = name
    def __repr__(s): return s.name or ('{%s}' % ','.join(map(repr, s.fields)))


class TNamed(T):
    def __init__(s, name): s.name = name
    def __repr__(s): return s.name


class TFunc(T):
    def __init__(s, ret, args, va): s.ret = ret; s.args = args; s.va = va
    def __repr__(s): return '%r(%s%s)' % (s.ret, ','.join(map(repr, s.args)), ',...' if s.va else '')


class TOpaque(T):
    def __repr__(s): return 'opaque'


class P:
    """token stream parser"""
    def __init__(s, toks): s.t = toks; s.i = 0
    def peek(s, o=0): return s.t[s.i + o] if s.i + o < len(s.t) else (None, None)
    def next(s): x = s.t[s.i]; s.i += 1; return x
    def accept(s, v):
        if s.peek()[1] == v: s.i += 1; return True
        return False
    def expect(s, v):
        x = s.next()
        if x[1] != v: raise SyntaxError('expected %r got %r at %r' % (v, x, s.t[max(0, s.i - 6):s.i + 4]))
    def eof(s): return s.i >= len(s.t)

    def ptype(s):
        k, v = s.next()
        if k == 'word':
            if re.fullmatch(r'i\d+', v): t = TInt(int(v[1:]))
            elif v in ('float', 'double', 'half', 'x86_fp80', 'fp128'): t = TFloat(v)
            elif v == 'void': t = TVoid()
            elif v == 'opaque': t = TOpaque()
            elif v == 'ptr': t = TPtr(TInt(8))
            elif v in ('label', 'metadata', 'token'): t = TVoid()
            else: raise SyntaxError('type word ' + v)
        elif k == 'lname': t = TNamed(v)
        elif v == '[':
            n = int(s.next()[1]); s.expect('x'); el = s.ptype(); s.expect(']'); t = TArr(n, el)
        elif v == '{':
            fs = []
            if not s.accept('}'):
                while True:
                    fs.append(s.ptype())
                    if s.accept('}'): break
                    s.expect(',')
            t = TStruct(fs)
        elif v == '<':
            if s.peek()[1] == '{':
                t = s.ptype(); t.packed = True; s.expect('>')
            else:
                n = int(s.next()[1]); s.expect('x'); el = s.ptype(); s.expect('>'); t = TArr(n, el); t.vector = True
        else:
            raise SyntaxError('type tok %r %r' % (k, v))
        while True:
            if s.accept('*'):
                t = TPtr(t)
            elif s.peek()[1] == '(' :
                # function type
                s.next(); args = []; va = False
                if not s.accept(')'):
                    while True:
                        if s.accept('...'): va = True
                        else: args.append(s.ptype())
                        if s.accept(')'): break
                        s.expect(',')
                t = TFunc(t, args, va)
            elif s.peek()[1] == 'addrspace':
                s.next(); s.expect('('); s.next(); s.expect(')')
            else:
                break
        return t


PARAM_ATTRS = {'noundef', 'nonnull', 'noalias', 'nocapture', 'readonly', 'writeonly', 'readnone', 'signext', 'zeroext',
               'returned', 'immarg', 'inreg', 'nest', 'nofree', 'swiftself', 'noreturn', 'nounwind', 'inalloca'}


class Module:
    def __init__(s):
        s.types = {}      # name -> T
        s.globals = {}    # name -> dict(type, init(tokens), const, extern)
        s.funcs = {}      # name -> Func
        s.order = []
        s.aliases = {}    # alias name -> aliasee name


class Func:
    pass


def skip_attrs(p, collect=None):
    """skip parameter/return attributes; return dict of interesting ones"""
    found = {}
    while True:
        k, v = p.peek()
        if k == 'word' and v in PARAM_ATTRS:
            p.next()
        elif k == 'word' and v in ('align', 'dereferenceable', 'dereferenceable_or_null'):
            p.next()
            if p.accept('('): p.next(); p.expect(')')
            else: p.next()
        elif k == 'word' and v in ('byval', 'sret', 'byref', 'preallocated', 'elementtype'):
            p.next(); p.expect('('); t = p.ptype(); p.expect(')'); found[v] = t
        else:
            break
    return found


def parse_module(text):
    m = Module()
    lines = text.split('\n')
    i = 0
    while i < len(lines):
        ln = lines[i]
        s = ln.strip()
        if not s or s.startswith(';') or s.startswith('source_filename') or s.startswith('target ') \
           or s.startswith('attributes ') or s.startswith('!') or s.startswith('$') or s.startswith('module asm'):
            i += 1; continue
        if s.startswith('%') and ' = type ' in s:
            name, rest = s.split(' = type ', 1)
            p = P(tokenize(rest)); t = p.ptype()
            if isinstance(t, TStruct): t.name = name
            m.types[name] = t
            i += 1; continue
        if s.startswith('@'):
            parse_global(m, s); i += 1; continue
        if s.startswith('declare '):
            parse_func_header(m, s[len('declare '):], None); i += 1; continue
        if s.startswith('define '):
            body = []
            hdr = s
            i += 1
            while lines[i].strip() != '}':
                body.append(lines[i]); i += 1
            i += 1
            parse_func_header(m, hdr[len('define '):].rstrip('{').strip(), body)
            continue
        raise SyntaxError('top-level: ' + s[:80])
    return m


LINKAGE = {'private', 'internal', 'external', 'linkonce_odr', 'linkonce', 'weak', 'weak_odr', 'common', 'appending',
           'available_externally', 'extern_weak', 'dso_local', 'dso_preemptable', 'unnamed_addr', 'local_unnamed_addr',
           'hidden', 'protected', 'default', 'thread_local', 'externally_initialized'}


def parse_global(m, s):
    name, rest = s.split(' = ', 1)
    toks = tokenize(rest)
    p = P(toks)
    extern = False
    while p.peek()[0] == 'word' and p.peek()[1] in LINKAGE:
        if p.peek()[1] in ('external', 'extern_weak'): extern = True
        w = p.next()[1]
        if w == 'thread_local' and p.accept('('): p.next(); p.expect(')')
    k, v = p.next()
    if v == 'alias':
        tgt = [t for t in toks if t[0] == 'gname']
        m.aliases[name] = tgt[-1][1]
        return
    const = (v == 'constant')
    t = p.ptype()
    init = None
    if not extern:
        init = parse_const(p, t)
    m.globals[name] = dict(type=t, init=init, const=const, extern=extern, tls=any(tk[1] == 'thread_local' for tk in toks[:8]))
    m.order.append(('g', name))


def parse_func_header(m, s, body):
    toks = tokenize(s)
    p = P(toks)
    f = Func()
    f.internal = False
    while p.peek()[0] == 'word' and (p.peek()[1] in LINKAGE or p.peek()[1] in ('fastcc', 'ccc', 'coldcc', 'cc')):
        if p.peek()[1] in ('internal', 'private'): f.internal = True
        p.next()
    skip_attrs(p)
    f.ret = p.ptype()
    k, v = p.next()
    assert k == 'gname', (k, v, s[:100])
    f.name = v
    p.expect('(')
    f.params = []
    f.va = False
    if not p.accept(')'):
        while True:
            if p.accept('...'):
                f.va = True
            else:
                t = p.ptype()
                at = skip_attrs(p)
                nm = None
                if p.peek()[0] == 'lname': nm = p.next()[1]
                f.params.append((t, nm, at))
            if p.accept(')'): break
            p.expect(',')
    f.body = body
    m.funcs[f.name] = f
    m.order.append(('f', f.name))


# ---------------------------------------------------------------- constants / operands
class Const:
    def __init__(s, kind, ty, val=None, ops=None): s.kind = kind; s.ty = ty; s.val = val; s.ops = ops or []


CONSTEXPR_OPS = {'bitcast', 'getelementptr', 'ptrtoint', 'inttoptr', 'add', 'sub', 'mul', 'trunc', 'zext', 'sext',
                 'addrspacecast', 'select', 'icmp', 'and', 'or', 'xor', 'shl', 'lshr', 'ashr', 'sdiv', 'udiv'}


def parse_const(p, t):
    """parse a value (constant or local) of known type t"""
    k, v = p.peek()
    if k == 'lname': p.next(); return Const('local', t, v)
    if k == 'gname': p.next(); return Const('global', t, v)
    if k == 'num':
        p.next()
        return Const('num', t, v)
    if k == 'str':
        p.next(); return Const('cstr', t, v)
    if k == 'word':
        if v in ('true', 'false'): p.next(); return Const('num', t, '1' if v == 'true' else '0')
        if v in ('null', 'zeroinitializer', 'undef', 'poison', 'none'): p.next(); return Const('zero', t, v)
        if v in CONSTEXPR_OPS:
            p.next()
            flags = []
            while p.peek()[0] == 'word' and p.peek()[1] in ('inbounds', 'nuw', 'nsw', 'exact', 'inrange'):
                flags.append(p.next()[1])
            pred = None
            if v == 'icmp': pred = p.next()[1]
            p.expect('(')
            ops = []
            srcty = None
            if v == 'getelementptr':
                srcty = p.ptype(); p.expect(',')
            while True:
                while p.peek()[1] == 'inrange': p.next()
                ot = p.ptype(); ops.append(parse_const(p, ot))
                if p.accept(','): continue
                break
            to = None
            if p.accept('to'): to = p.ptype()
            p.expect(')')
            c = Const('expr', t, v, ops); c.to = to; c.srcty = srcty; c.pred = pred
            return c
    if v == '[' or v == '{' or v == '<':
        p.next()
        packed = False
        close = {'[': ']', '{': '}', '<': '>'}[v]
        if v == '<' and p.peek()[1] == '{':
            p.next(); packed = True; close = '}'
        ops = []
        if not p.accept(close):
            while True:
                ot = p.ptype(); ops.append(parse_const(p, ot))
                if p.accept(close): break
                p.expect(',')
        if packed: p.expect('>')
        return Const('agg', t, v, ops)
    raise SyntaxError('const %r %r' % (k, v))


# ---------------------------------------------------------------- C emission
class Emitter:
    def __init__(s, m):
        s.m = m
        s.out = []
        s.anon = {}     # repr -> cname for anonymous structs / arrays / func types
        s.decls = []    # type declarations in order
        s.declared = set()
        s.gnames = {}
        s.inprogress = set()
        s.icache = {}

    def cid(s, name):
        n = name[1:]
        if n.startswith('"'): n = n[1:-1]
        n = re.sub(r'[^A-Za-z0-9_]', lambda mm: '_%02x' % ord(mm.group(0)), n)
        return n

    def gname(s, name):
        while name in s.m.aliases: name = s.m.aliases[name]
        n = s.cid(name)
        if n == 'sqrt': return 'vt_sqrt'
        if n == 'bcmp': return 'memcmp'
        if name in s.m.funcs and re.match(r'llvm_', n): return n
        if n in ('main',): return n
        return n

    def resolve(s, t):
        while isinstance(t, TNamed):
            t = s.m.types[t.name]
        return t

    # returns C type string for a value of type t
    def ctype(s, t):
        if isinstance(t, TInt):
            if t.n == 1: return 'uint8_t'
            if t.n <= 8: return 'uint8_t'
            if t.n <= 16: return 'uint16_t'
            if t.n <= 32: return 'uint32_t'
            if t.n <= 64: return 'uint64_t'
            if t.n <= 128: return 'unsigned __int128'
            raise NotImplementedError('int width %d' % t.n)
        if isinstance(t, TFloat):
            return {'float': 'float', 'double': 'double', 'x86_fp80': 'long double'}[t.k]
        if isinstance(t, TVoid): return 'void'
        if isinstance(t, TPtr):
            to = t.to
            if isinstance(to, TFunc):
                return s.functype(to) + '*'
            if isinstance(to, TVoid): return 'void*'
            if isinstance(to, TNamed):
                rt = s.m.types[to.name]
                if isinstance(rt, TOpaque) or isinstance(rt, TStruct):
                    return 'struct ' + s.cid(to.name) + '*'   # forward-declared
            return s.ctype(to) + '*'
        if isinstance(t, TNamed):
            rt = s.m.types[t.name]
            if isinstance(rt, TStruct) or isinstance(rt, TOpaque):
                s.declare_struct(t.name)
                return 'struct ' + s.cid(t.name)
            return s.ctype(rt)
        if isinstance(t, TStruct):
            if t.name:
                s.declare_struct(t.name); return 'struct ' + s.cid(t.name)
            key = ('P' if t.packed else '') + repr(t)
            if key not in s.anon:
                nm = 'anon_s%d' % len(s.anon)
                s.anon[key] = nm
                s.emit_struct(nm, t)
            return 'struct ' + s.anon[key]
        if isinstance(t, TArr):
            key = repr(t)
            if key not in s.anon:
                nm = 'arr_t%d' % len(s.anon)
                s.anon[key] = nm
                el = s.ctype(t.el)
                s.decls.append('typedef struct { %s a[%d]; } %s;' % (el, max(t.n, 1) if t.n else 1, nm) if t.n else
                               'typedef struct { %s a[1]; } %s;' % (el, nm))
            return s.anon[key]
        if isinstance(t, TFunc):
            return s.functype(t)
        raise NotImplementedError(repr(t))

    def functype(s, t):
        key = 'F' + repr(t)
        if key not in s.anon:
            nm = 'fn_t%d' % len(s.anon)
            s.anon[key] = nm
            args = [s.ctype(a) for a in t.args]
            if t.va and args: args.append('...')
            if not args: args = [] if t.va else ['void']
            s.decls.append('typedef %s %s(%s);' % (s.ctype(t.ret), nm, ', '.join(args)))
        return s.anon[key]

    def declare_struct(s, name):
        if name in s.declared: return
        s.declared.add(name)
        t = s.m.types[name]
        if isinstance(t, TOpaque):
            return
        s.emit_struct(s.cid(name), t)

    def emit_struct(s, cname, t):
        fs = []
        for i, f in enumerate(t.fields):
            fs.append('%s f%d;' % (s.ctype(f), i))
        if not fs: fs = ['char empty_[0];']
        s.decls.append('struct %s%s { %s };' % ('__attribute__((packed)) ' if t.packed else '', cname, ' '.join(fs)))

    # ---------------- indirect call candidates
    def base_chain(s, t):
        """names of the struct types found by following first fields (single inheritance chain), '.base' suffixes dropped"""
        out = []
        seen = 0
        while seen < 20:
            seen += 1
            if isinstance(t, TNamed):
                nm = t.name
                if nm.endswith('.base"'): nm = nm[:-6] + '"'
                elif nm.endswith('.base'): nm = nm[:-5]
                out.append(nm)
                t = s.m.types.get(t.name)
            if isinstance(t, TStruct) and t.fields:
                t = t.fields[0]
                continue
            break
        return out

    def receivers_related(s, a, b):
        if not (isinstance(a, TPtr) and isinstance(b, TPtr)): return repr(a) == repr(b)
        ca, cb = s.base_chain(a.to), s.base_chain(b.to)
        if not ca or not cb: return repr(a) == repr(b) or not ca and not cb
        return ca[0] in cb or cb[0] in ca

    def indirect_candidates(s, ft):
        key = repr(ft)
        if key in s.icache: return s.icache[key]
        res = []
        for name, f in s.m.funcs.items():
            if name.startswith('@llvm.') or f.va: continue
            if s.gname(name) in BUILTIN_SKIP: continue
            if len(f.params) != len(ft.args): continue
            if repr(f.ret) != repr(ft.ret): continue
            ok = True
            for i, (pt, _, _) in enumerate(f.params):
                if i == 0:
                    if not s.receivers_related(pt, ft.args[0]): ok = False; break
                elif repr(pt) != repr(ft.args[i]): ok = False; break
            if ok: res.append(f)
        if len(res) > 24: res = None     # too unspecific (e.g. void(i8*)): leave it to CBMC
        s.icache[key] = res
        return res

    # ---------------- x86-64 data layout
    def alignof(s, t):
        t = s.resolve(t)
        if isinstance(t, TInt): return min(max(1, (t.n + 7) // 8), 8) if t.n <= 64 else 16
        if isinstance(t, TFloat): return {'float': 4, 'double': 8, 'x86_fp80': 16, 'half': 2, 'fp128': 16}[t.k]
        if isinstance(t, TPtr): return 8
        if isinstance(t, TArr): return s.alignof(t.el)
        if isinstance(t, TStruct):
            if t.packed or not t.fields: return 1
            return max(s.alignof(f) for f in t.fields)
        raise NotImplementedError('alignof %r' % (t,))

    def sizeof(s, t):
        t = s.resolve(t)
        if isinstance(t, TInt):
            b = (t.n + 7) // 8
            for k in (1, 2, 4, 8, 16):
                if b <= k: return k
        if isinstance(t, TFloat): return {'float': 4, 'double': 8, 'x86_fp80': 16, 'half': 2, 'fp128': 16}[t.k]
        if isinstance(t, TPtr): return 8
        if isinstance(t, TArr): return t.n * s.sizeof(t.el)
        if isinstance(t, TStruct):
            off = 0
            for f in t.fields:
                a = 1 if t.packed else s.alignof(f)
                off = (off + a - 1) // a * a + s.sizeof(f)
            a = s.alignof(t)
            return (off + a - 1) // a * a
        raise NotImplementedError('sizeof %r' % (t,))

    # ---------------- constant expressions -> C
    def fpconst(s, t, v):
        if v.startswith('0x'):
            h = v[2:]
            if h[0] in 'KMLHR': raise NotImplementedError('fp const ' + v)
            bits = int(h, 16)
            d = struct.unpack('<d', struct.pack('<Q', bits))[0]
        else:
            d = float(v)
        if d != d: return '(0.0/0.0)'
        if d in (float('inf'), float('-inf')): return '(%s1.0/0.0)' % ('-' if d < 0 else '')
        r = d.hex()
        return '((%s)%s)' % (s.ctype(t), r)

    def cexpr(s, c, t=None):
        t = c.ty
        rt = s.resolve(t)
        if c.kind == 'num':
            if isinstance(rt, TFloat): return s.fpconst(rt, c.val)
            v = int(c.val)
            if isinstance(rt, TInt):
                v &= (1 << rt.n) - 1
                if rt.n > 64:
                    return '((((unsigned __int128)%dULL)<<64)|%dULL)' % (v >> 64, v & ((1 << 64) - 1))
                return '((%s)%dULL)' % (s.ctype(rt), v)
            return str(v)
        if c.kind == 'zero':
            if isinstance(rt, (TStruct, TArr)): return None   # caller uses {0}
            if isinstance(rt, TPtr): return '((%s)0)' % s.ctype(rt)
            if isinstance(rt, TFloat): return '0.0'
            return '0'
        if c.kind == 'global':
            return s.gref(c.val, t)
        if c.kind == 'local':
            return s.lref(c.val)
        if c.kind == 'expr':
            op = c.val
            if op in ('bitcast', 'addrspacecast', 'inttoptr', 'ptrtoint', 'trunc', 'zext'):
                return '((%s)%s)' % (s.ctype(c.to), s.cexpr(c.ops[0]))
            if op == 'getelementptr':
                return s.gep(c.srcty, c.ops[0], c.ops[1:])
            if op in ('add', 'sub', 'mul', 'and', 'or', 'xor'):
                o = {'add': '+', 'sub': '-', 'mul': '*', 'and': '&', 'or': '|', 'xor': '^'}[op]
                return '((%s)(%s %s %s))' % (s.ctype(c.ops[0].ty), s.cexpr(c.ops[0]), o, s.cexpr(c.ops[1]))
            if op == 'icmp':
                return s.icmp(c.pred, c.ops[0], c.ops[1])
            if op == 'select':
                return '(%s ? %s : %s)' % tuple(s.cexpr(o) for o in c.ops)
        raise NotImplementedError('cexpr %s %s' % (c.kind, c.val))

    def gref(s, name, t):
        while name in s.m.aliases: name = s.m.aliases[name]
        n = s.gname(name)
        if name in s.m.funcs:
            return '((%s)&%s)' % (s.ctype(t), n)
        return '((%s)&%s)' % (s.ctype(t), n)

    def gep(s, srcty, base, idx):
        # &((srcty*)base)[i0].fN.a[i]...
        e = '((%s*)%s)' % (s.ctype(srcty), s.cexpr(base))
        cur = srcty
        first = True
        acc = ''
        for ix in idx:
            if first:
                e = '(%s + (int64_t)%s)' % (e, s.sidx(ix)); first = False
                acc = '(*%s)' % e
                continue
            rt = s.resolve(cur)
            if isinstance(rt, TStruct):
                n = int(ix.val)
                acc = '%s.f%d' % (acc, n); cur = rt.fields[n]
            elif isinstance(rt, TArr):
                acc = '%s.a[(int64_t)%s]' % (acc, s.sidx(ix)); cur = rt.el
            else:
                raise NotImplementedError('gep into %r' % (rt,))
        if first or acc == '': return e
        return '(&%s)' % acc

    def sidx(s, ix):
        rt = s.resolve(ix.ty)
        if ix.kind == 'num': return str(int(ix.val))
        n = rt.n
        return '(int%d_t)%s' % (n if n in (8, 16, 32, 64) else 64, s.cexpr(ix))

    def icmp(s, pred, a, b):
        rt = s.resolve(a.ty)
        A, B = s.cexpr(a), s.cexpr(b)
        if isinstance(rt, TPtr):
            if pred in ('eq', 'ne'):
                return '((uint8_t)((void*)%s %s (void*)%s))' % (A, '==' if pred == 'eq' else '!=', B)
            A = '(uint64_t)' + A; B = '(uint64_t)' + B; n = 64
        else:
            n = rt.n
        sw = {1: 8, 8: 8, 16: 16, 32: 32, 64: 64}.get(n)
        ops = {'eq': '==', 'ne': '!=', 'ugt': '>', 'uge': '>=', 'ult': '<', 'ule': '<=',
               'sgt': '>', 'sge': '>=', 'slt': '<', 'sle': '<='}
        if pred[0] == 's':
            if n == 1:
                A = '(-(int8_t)%s)' % A; B = '(-(int8_t)%s)' % B
            elif sw is None:
                A = s.sext_to(A, n, 64); B = s.sext_to(B, n, 64)
            else:
                A = '(int%d_t)%s' % (sw, A); B = '(int%d_t)%s' % (sw, B)
        return '((uint8_t)(%s %s %s))' % (A, ops[pred], B)

    def sext_to(s, e, n, m):
        return '((int%d_t)((uint%d_t)%s << %d) >> %d)' % (m, m, e, m - n, m - n)

    def lref(s, name):
        return 'v_' + s.cid(name)

    # ---------------- global initialisers
    def ginit(s, c):
        rt = s.resolve(c.ty)
        if c.kind == 'zero' and isinstance(rt, (TStruct, TArr)):
            return '{0}'
        if c.kind == 'cstr':
            raw = c.val[2:-1]
            bs = []
            i = 0
            while i < len(raw):
                if raw[i] == '\\':
                    bs.append(int(raw[i + 1:i + 3], 16)); i += 3
                else:
                    bs.append(ord(raw[i])); i += 1
            return '{{%s}}' % ','.join(map(str, bs))
        if c.kind == 'agg':
            if isinstance(rt, TArr):
                return '{{%s}}' % ','.join(s.ginit(o) for o in c.ops)
            return '{%s}' % ','.join(s.ginit(o) for o in c.ops) if c.ops else '{0}'
        return s.cexpr(c)

    # ---------------- functions
    def proto(s, f, named=False):
        args = []
        for i, (t, nm, at) in enumerate(f.params):
            a = s.ctype(t)
            if named: a += ' ' + (s.lref(nm) if nm else 'v_arg%d' % i)
            args.append(a)
        if f.va: args.append('...')
        if not args: args = ['void']
        return '%s %s(%s)' % (s.ctype(f.ret), s.gname(f.name), ', '.join(args))

    def translate(s):
        m = s.m
        body_out = []
        # globals (decls first so they may reference each other)
        gdecl = []
        gdef = []
        for kind, name in m.order:
            if kind != 'g': continue
            if name.startswith('@llvm.'): continue
            g = m.globals[name]
            ct = s.ctype(g['type'])
            n = s.gname(name)
            tl = '__thread ' if g.get('tls') else ''
            if g['extern']:
                gdecl.append('extern %s%s %s;' % (tl, ct, n))
            else:
                gdecl.append('extern %s%s %s;' % (tl, ct, n))
                gdef.append('%s%s %s = %s;' % (tl, ct, n, s.ginit(g['init'])))
        protos = []
        for kind, name in m.order:
            if kind != 'f': continue
            f = m.funcs[name]
            if name.startswith('@llvm.'): continue
            if s.gname(name) in BUILTIN_SKIP: continue
            protos.append(s.proto(f) + ';')
        fdefs = []
        for kind, name in m.order:
            if kind != 'f': continue
            f = m.funcs[name]
            if f.body is None: continue
            fdefs.append(FuncTrans(s, f).run())
        hdr = ['#include <stdint.h>', '#include <string.h>', '#include <math.h>', '#include <stdlib.h>', PRELUDE]
        # forward declare all named structs
        fwd = []
        for name, t in m.types.items():
            if isinstance(t, (TStruct, TOpaque)):
                fwd.append('struct %s;' % s.cid(name))
        return '\n'.join(hdr + fwd + s.decls + gdecl + protos + gdef + fdefs) + '\n'


BUILTIN_SKIP = {'memcpy', 'memmove', 'memset', 'malloc', 'free', 'sqrt', 'fabs', 'floor', 'ceil', 'fmod', 'abs',
                'strlen', 'memcmp', 'bcmp', '__CPROVER_assume', '__CPROVER_assert', 'vt_cover', 'abort', 'cos', 'sin', 'acos', 'atan2',
                'pow', 'exp', 'log', 'tan', 'asin', 'atan', 'fmin', 'fmax', 'round', 'trunc', '__gxx_personality_v0', 'strcmp', 'nanosleep', '__errno_location'}

PRELUDE = r'''
#if defined(__CPROVER__) && defined(VT_BOUNDED_MEMMOVE)
/* Query option: memmove of a few 32-bit words by an explicit bounded loop (vt/stubs/base.c); CBMC's array model of a
 * symbolic-size memmove (std::sort's insertion step) does not finish */
void *vt_bounded_memmove(void *, const void *, unsigned long);
# define memmove vt_bounded_memmove
#endif
#if defined(__CPROVER__)
# if defined(VT_WITNESS)
#  define VT_ASSERT(c, m) ((void)0)
#  define VT_COVER(m) __CPROVER_assert(0, "COVER " m)
# else
#  define VT_ASSERT(c, m) __CPROVER_assert((c), m)
#  define VT_COVER(m) ((void)0)
# endif
#else
void vt_native_assume(int); void vt_native_assert(int, const char *); void vt_native_cover(const char *);
# define __CPROVER_assume(c) vt_native_assume(!!(c))
# define VT_ASSERT(c, m) vt_native_assert(!!(c), m)
# define VT_COVER(m) vt_native_cover(m)
#endif
#if defined(__CPROVER__)
uint64_t __CPROVER_uninterpreted_vt_fmul(uint64_t, uint64_t); uint64_t __CPROVER_uninterpreted_vt_fdiv(uint64_t, uint64_t);
uint64_t __CPROVER_uninterpreted_vt_fadd(uint64_t, uint64_t); uint64_t __CPROVER_uninterpreted_vt_fsub(uint64_t, uint64_t);
#define VT_UF(name, cop, comm, nanok) static inline double vt_uf_##name(double a, double b) { union { double d; uint64_t u; } x, y, r; x.d = a; y.d = b; \
    if (comm && y.u < x.u) { uint64_t t = x.u; x.u = y.u; y.u = t; } /* commutative operations: operand order is canonicalised */ \
    r.u = __CPROVER_uninterpreted_vt_##name(x.u, y.u); \
    /* sound range fact: an operation on two finite operands never yields NaN (division: unless 0/0) */ \
    if (a - a == 0.0 && b - b == 0.0 && (nanok || a != 0.0 || b != 0.0)) __CPROVER_assume(r.d == r.d); \
    return r.d; }
#else
#define VT_UF(name, cop, comm, nanok) static inline double vt_uf_##name(double a, double b) { return a cop b; }
#endif
VT_UF(fmul, *, 1, 1) VT_UF(fdiv, /, 0, 0) VT_UF(fadd, +, 1, 1) VT_UF(fsub, -, 0, 1)
#if defined(VT_NEW_CAP) && defined(__CPROVER__)
static inline void vt_new_cap_check(uint64_t n) { if (n > VT_NEW_CAP) { __CPROVER_assert(0, "bounded std model capacity exceeded (allocation above VT_NEW_CAP)"); __CPROVER_assume(0); } }
#define VT_NEW_ARRAY(T, nbytes) (vt_new_cap_check(nbytes), (uint8_t*)malloc(sizeof(T) * (VT_NEW_CAP / sizeof(T))))
#else
#define VT_NEW_ARRAY(T, nbytes) ((uint8_t*)malloc(sizeof(T) * ((nbytes) / sizeof(T))))
#endif
double vt_sqrt(double);
static inline uint64_t ir2c_umax(uint64_t a, uint64_t b) { return a > b ? a : b; }
static inline uint64_t ir2c_umin(uint64_t a, uint64_t b) { return a < b ? a : b; }
static inline int64_t ir2c_smax(int64_t a, int64_t b) { return a > b ? a : b; }
static inline int64_t ir2c_smin(int64_t a, int64_t b) { return a < b ? a : b; }
'''

UF_OPS = set()   # float operations abstracted by uninterpreted functions (--uf=fmul,fdiv): sound for equality proofs

BINOPS = {'add': '+', 'sub': '-', 'mul': '*', 'and': '&', 'or': '|', 'xor': '^', 'shl': '<<', 'lshr': '>>',
          'udiv': '/', 'urem': '%'}
FBIN = {'fadd': '+', 'fsub': '-', 'fmul': '*', 'fdiv': '/'}
FASTMATH = {'nnan', 'ninf', 'nsz', 'arcp', 'contract', 'afn', 'reassoc', 'fast'}


class FuncTrans:
    def __init__(s, em, f):
        s.em = em; s.f = f
        s.locals = {}    # cname -> ctype
        s.lines = []
        s.blocks = []    # (label, [instr token lists])
        s.ltypes = {}    # local name -> T

    def parse_blocks(s):
        cur = None
        s.pending = None
        for ln in s.f.body:
            t = ln.strip()
            if not t or t.startswith(';'): continue
            mm = re.match(r'^([-a-zA-Z$._0-9]+|"[^"]*"):', t)
            if mm and not t.startswith('%'):
                cur = ('%' + mm.group(1), []); s.blocks.append(cur); continue
            if cur is None:
                # entry block label = next unnamed number = len(params) (unnamed params count)
                cur = ('%entry_', []); s.blocks.append(cur)
            if s.pending is not None:
                s.pending += ' ' + t
                if t.startswith(']'):
                    t = s.pending; s.pending = None
                else:
                    continue
            elif t.startswith('switch ') and t.endswith('['):
                s.pending = t; continue
            # strip trailing metadata / comments
            t = re.sub(r',\s*![a-zA-Z_.0-9]+\s+![0-9a-zA-Z_.]+', '', t)
            t = re.sub(r';[^"]*$', '', t) if ';' in t and '"' not in t else t
            cur[1].append(t)
        # the implicit entry label number
        n = 0
        for (t, nm, at) in s.f.params:
            if nm is None or re.fullmatch(r'%\d+', nm): n += 1
        s.entry_alias = '%' + str(n)

    def lab(s, name):
        if name == s.entry_alias and s.blocks[0][0] == '%entry_': name = '%entry_'
        return 'L_' + s.em.cid(name)

    def val(s, c):
        return s.em.cexpr(c)

    def setl(s, name, t, expr):
        cn = s.em.lref(name)
        s.locals[cn] = s.em.ctype(t)
        s.ltypes[name] = t
        s.lines.append('  %s = %s;' % (cn, expr))

    def run(s):
        em = s.em
        s.parse_blocks()
        # pre-pass: phi collection
        phis = {}   # block label -> list of (dest, type, [(const, pred)])
        parsed = []
        for lab, ins in s.blocks:
            pl = []
            for t in ins:
                pl.append(t)
            parsed.append((lab, pl))
        # translate
        out_blocks = []
        s.phi_assign = {}   # (pred, succ) -> [(tmpname, expr)]
        s.phi_at = {}       # succ -> [(dest, tmp)]
        for lab, ins in parsed:
            for t in ins:
                mm = re.match(r'^(%[-a-zA-Z$._0-9]+|%"[^"]*") = phi ', t)
                if mm:
                    p = P(tokenize(t)); dest = p.next()[1]; p.expect('='); p.next()
                    ty = p.ptype()
                    inc = []
                    while True:
                        p.expect('['); c = parse_const(p, ty); p.expect(','); pred = p.next()[1]; p.expect(']')
                        inc.append((c, pred))
                        if not p.accept(','): break
                    tmp = em.lref(dest) + '_phi'
                    s.locals[tmp] = em.ctype(ty); s.locals[em.lref(dest)] = em.ctype(ty)
                    s.phi_at.setdefault(lab, []).append((em.lref(dest), tmp))
                    for c, pred in inc:
                        if pred == s.entry_alias and s.blocks[0][0] == '%entry_': pred = '%entry_'
                        s.phi_assign.setdefault((pred, lab), []).append((tmp, c))
        for lab, ins in parsed:
            s.cur = lab
            s.lines.append('%s: ;' % s.lab(lab))
            for d, tmp in s.phi_at.get(lab, []):
                s.lines.append('  %s = %s;' % (d, tmp))
            for t in ins:
                if re.match(r'^(%[-a-zA-Z$._0-9]+|%"[^"]*") = phi ', t): continue
                try:
                    s.instr(t)
                except Exception as e:
                    raise RuntimeError('in %s: %s\n  %s' % (s.f.name, t, e))
        decl = ['  %s %s;' % (ct, cn) for cn, ct in s.locals.items()]
        return '%s\n{\n%s\n%s\n}\n' % (em.proto(s.f, named=True), '\n'.join(decl), '\n'.join(s.lines))

    def goto(s, target):
        tl = target
        if tl == s.entry_alias and s.blocks[0][0] == '%entry_': tl = '%entry_'
        asg = s.phi_assign.get((s.cur, tl), [])
        r = ''.join('%s = %s; ' % (tmp, s.val(c)) for tmp, c in asg)
        return '{ %sgoto %s; }' % (r, s.lab(target))

    def instr(s, t):
        em = s.em
        if re.match(r'^(tail )?call void asm sideeffect "#', t):
            return    # inline asm that is only an assembler comment (Eigen markers)
        p = P(tokenize(t))
        dest = None
        if p.peek()[0] == 'lname' and p.peek(1)[1] == '=':
            dest = p.next()[1]; p.next()
        k, op = p.next()
        while op in ('tail', 'musttail', 'notail'):
            k, op = p.next()
        L = s.lines
        if op == 'ret':
            ty = p.ptype()
            if isinstance(ty, TVoid): L.append('  return;')
            else: L.append('  return %s;' % s.val(parse_const(p, ty)))
            return
        if op == 'br':
            if p.accept('label'):
                L.append('  ' + s.goto(p.next()[1])); return
            ty = p.ptype(); c = parse_const(p, ty); p.expect(','); p.expect('label'); a = p.next()[1]
            p.expect(','); p.expect('label'); b = p.next()[1]
            L.append('  if (%s) %s else %s' % (s.val(c), s.goto(a), s.goto(b))); return
        if op == 'unreachable':
            L.append('  __CPROVER_assume(0); for(;;);' if False else '  __CPROVER_assume(0); abort();'); return
        if op == 'resume':
            L.append('  __CPROVER_assume(0); abort();'); return
        if op == 'switch':
            ty = p.ptype(); c = parse_const(p, ty); p.expect(','); p.expect('label'); dflt = p.next()[1]
            p.expect('[')
            cases = []
            while not p.accept(']'):
                ct = p.ptype(); cv = parse_const(p, ct); p.expect(','); p.expect('label'); cases.append((cv, p.next()[1]))
            for cv, lb in cases:
                L.append('  if (%s == %s) %s' % (s.val(c), s.val(cv), s.goto(lb)))
            L.append('  ' + s.goto(dflt)); return
        if op == 'alloca':
            ty = p.ptype()
            cn = em.lref(dest) + '_mem'
            n = None
            if p.accept(','):
                if p.peek()[1] != 'align':
                    nt = p.ptype(); n = parse_const(p, nt)
            if n is not None and n.kind == 'num':
                s.locals[cn + '[%d]' % int(n.val)] = em.ctype(ty)
                s.setl(dest, TPtr(ty), '&%s[0]' % cn)
            elif n is not None:
                s.setl(dest, TPtr(ty), '(%s*)malloc(sizeof(%s)*%s)' % (em.ctype(ty), em.ctype(ty), s.val(n)))
            else:
                s.locals[cn] = em.ctype(ty)
                s.setl(dest, TPtr(ty), '&%s' % cn)
            return
        if op == 'load':
            while p.peek()[1] in ('atomic', 'volatile'): p.next()
            ty = p.ptype(); p.expect(','); pt = p.ptype(); ptr = parse_const(p, pt)
            s.setl(dest, ty, '*(%s*)%s' % (em.ctype(ty), s.val(ptr))); return
        if op == 'store':
            while p.peek()[1] in ('atomic', 'volatile'): p.next()
            ty = p.ptype(); v = parse_const(p, ty); p.expect(','); pt = p.ptype(); ptr = parse_const(p, pt)
            rt = em.resolve(ty)
            vs = s.val(v)
            if vs is None:
                L.append('  memset(%s, 0, sizeof(%s));' % (s.val(ptr), em.ctype(ty)))
            else:
                L.append('  *(%s*)%s = %s;' % (em.ctype(ty), s.val(ptr), vs))
            return
        if op == 'getelementptr':
            p.accept('inbounds')
            srcty = p.ptype(); p.expect(',')
            ops = []
            while True:
                ot = p.ptype(); ops.append(parse_const(p, ot))
                if not p.accept(','): break
            # result type
            cur = srcty
            for ix in ops[2:]:
                rt = em.resolve(cur)
                cur = rt.fields[int(ix.val)] if isinstance(rt, TStruct) else rt.el
            s.setl(dest, TPtr(cur), '(%s)%s' % (em.ctype(TPtr(cur)), em.gep(srcty, ops[0], ops[1:]))); return
        if op in BINOPS or op in ('sdiv', 'srem', 'ashr'):
            while p.peek()[1] in ('nuw', 'nsw', 'exact'): p.next()
            ty = p.ptype(); a = parse_const(p, ty); p.expect(','); b = parse_const(p, ty)
            rt = em.resolve(ty); n = rt.n; ct = em.ctype(ty)
            A, B = s.val(a), s.val(b)
            wide = 'unsigned __int128' if n > 64 else 'uint64_t'
            if op in BINOPS:
                e = '(%s)((%s)%s %s (%s)%s)' % (ct, wide, A, BINOPS[op], wide, B)
            else:
                sw = {8: 8, 16: 16, 32: 32, 64: 64}[n]
                o = {'sdiv': '/', 'srem': '%', 'ashr': '>>'}[op]
                if op == 'ashr':
                    e = '(%s)((int%d_t)%s >> %s)' % (ct, sw, A, B)
                else:
                    e = '(%s)((int%d_t)%s %s (int%d_t)%s)' % (ct, sw, A, o, sw, B)
            if n not in (8, 16, 32, 64, 128):
                e = '(%s)(%s & %dULL)' % (ct, e, (1 << n) - 1)
            s.setl(dest, ty, e); return
        if op in FBIN or op == 'frem':
            while p.peek()[1] in FASTMATH: p.next()
            ty = p.ptype(); a = parse_const(p, ty); p.expect(','); b = parse_const(p, ty)
            if op == 'frem': s.setl(dest, ty, 'fmod(%s, %s)' % (s.val(a), s.val(b)))
            elif op in UF_OPS and repr(em.resolve(ty)) == 'double': s.setl(dest, ty, 'vt_uf_%s(%s, %s)' % (op, s.val(a), s.val(b)))
            else: s.setl(dest, ty, '(%s %s %s)' % (s.val(a), FBIN[op], s.val(b)))
            return
        if op == 'fneg':
            while p.peek()[1] in FASTMATH: p.next()
            ty = p.ptype(); a = parse_const(p, ty); s.setl(dest, ty, '(-%s)' % s.val(a)); return
        if op == 'icmp':
            pred = p.next()[1]; ty = p.ptype(); a = parse_const(p, ty); p.expect(','); b = parse_const(p, ty)
            s.setl(dest, TInt(1), em.icmp(pred, a, b)); return
        if op == 'fcmp':
            while p.peek()[1] in FASTMATH: p.next()
            pred = p.next()[1]; ty = p.ptype(); a = parse_const(p, ty); p.expect(','); b = parse_const(p, ty)
            A, B = s.val(a), s.val(b)
            tbl = {'oeq': '(%s == %s)', 'ogt': '(%s > %s)', 'oge': '(%s >= %s)', 'olt': '(%s < %s)',
                   'ole': '(%s <= %s)', 'one': '(%s < %s || %s > %s)', 'ord': '(%s == %s && %s == %s)',
                   'ueq': '!(%s < %s || %s > %s)', 'ugt': '!(%s <= %s)', 'uge': '!(%s < %s)', 'ult': '!(%s >= %s)',
                   'ule': '!(%s > %s)', 'une': '(%s != %s)', 'uno': '(%s != %s || %s != %s)',
                   'true': '1', 'false': '0'}
            f = tbl[pred]
            if pred in ('ord', 'uno'): e = f % (A, A, B, B)
            elif f.count('%s') == 4: e = f % (A, B, A, B)
            elif f.count('%s') == 2: e = f % (A, B)
            else: e = f
            s.setl(dest, TInt(1), '(uint8_t)(%s)' % e); return
        if op in ('zext', 'trunc', 'bitcast', 'ptrtoint', 'inttoptr', 'sext', 'fptosi', 'fptoui', 'sitofp', 'uitofp',
                  'fpext', 'fptrunc', 'addrspacecast'):
            while p.peek()[1] in ('nuw', 'nsw', 'nneg'): p.next()
            ty = p.ptype(); a = parse_const(p, ty); p.expect('to'); to = p.ptype()
            A = s.val(a); ct = em.ctype(to); rs = em.resolve(ty); rd = em.resolve(to)
            if op == 'sext':
                if rs.n == 1: e = '(%s)(-(int64_t)%s)' % (ct, A)
                else: e = '(%s)(int64_t)(int%d_t)%s' % (ct, rs.n, A)
            elif op == 'trunc':
                e = '(%s)%s' % (ct, A)
                if rd.n == 1: e = '(%s)(%s & 1)' % (ct, A)
                elif rd.n not in (8, 16, 32, 64): e = '(%s)(%s & %dULL)' % (ct, A, (1 << rd.n) - 1)
            elif op == 'fptosi':
                e = '(%s)(int%d_t)%s' % (ct, max(rd.n, 8) if rd.n in (8, 16, 32, 64) else 64, A)
            elif op == 'sitofp':
                e = '(%s)(int%d_t)%s' % (ct, rs.n, A)
            elif op == 'bitcast' and (isinstance(rs, TFloat) != isinstance(rd, TFloat)):
                tmp = em.lref(dest) + '_bc'
                s.locals[tmp] = 'union { %s a; %s b; }' % (em.ctype(ty), ct)
                L.append('  %s.a = %s;' % (tmp, A))
                s.setl(dest, to, '%s.b' % tmp); return
            else:
                e = '(%s)%s' % (ct, A)
            s.setl(dest, to, e); return
        if op == 'select':
            while p.peek()[1] in FASTMATH: p.next()
            ct_ = p.ptype(); c = parse_const(p, ct_); p.expect(','); ty = p.ptype(); a = parse_const(p, ty)
            p.expect(','); ty2 = p.ptype(); b = parse_const(p, ty2)
            s.setl(dest, ty, '(%s ? %s : %s)' % (s.val(c), s.val(a), s.val(b))); return
        if op in ('call', 'invoke'):
            return s.call(p, dest, op)
        if op == 'extractvalue':
            ty = p.ptype(); a = parse_const(p, ty); idx = []
            while p.accept(','): idx.append(int(p.next()[1]))
            cur = ty; acc = s.val(a)
            for i in idx:
                rt = em.resolve(cur)
                if isinstance(rt, TStruct): acc += '.f%d' % i; cur = rt.fields[i]
                else: acc += '.a[%d]' % i; cur = rt.el
            s.setl(dest, cur, acc); return
        if op == 'insertvalue':
            ty = p.ptype(); a = parse_const(p, ty); p.expect(','); vt = p.ptype(); v = parse_const(p, vt); idx = []
            while p.accept(','): idx.append(int(p.next()[1]))
            cn = em.lref(dest); s.locals[cn] = em.ctype(ty); s.ltypes[dest] = ty
            av = s.val(a)
            if av is None: L.append('  memset(&%s, 0, sizeof(%s));' % (cn, cn))
            else: L.append('  %s = %s;' % (cn, av))
            cur = ty; acc = cn
            for i in idx:
                rt = em.resolve(cur)
                if isinstance(rt, TStruct): acc += '.f%d' % i; cur = rt.fields[i]
                else: acc += '.a[%d]' % i; cur = rt.el
            L.append('  %s = %s;' % (acc, s.val(v))); return
        if op == 'landingpad':
            ty = p.ptype()
            cn = em.lref(dest); s.locals[cn] = em.ctype(ty)
            L.append('  __CPROVER_assume(0);'); return
        if op == 'freeze':
            ty = p.ptype(); a = parse_const(p, ty); s.setl(dest, ty, s.val(a)); return
        if op == 'fence':
            return
        if op == 'atomicrmw':
            p.accept('volatile')
            o = p.next()[1]; pt = p.ptype(); ptr = parse_const(p, pt); p.expect(','); ty = p.ptype(); v = parse_const(p, ty)
            ct = em.ctype(ty); P_ = '(*(%s*)%s)' % (ct, s.val(ptr))
            s.setl(dest, ty, P_)
            cop = {'add': '+', 'sub': '-', 'and': '&', 'or': '|', 'xor': '^'}.get(o)
            if o == 'xchg': L.append('  %s = %s;' % (P_, s.val(v)))
            else: L.append('  %s = (%s)(%s %s %s);' % (P_, ct, P_, cop, s.val(v)))
            return
        if op == 'cmpxchg':
            while p.peek()[1] in ('weak', 'volatile'): p.next()
            pt = p.ptype(); ptr = parse_const(p, pt); p.expect(','); ty = p.ptype(); cmpv = parse_const(p, ty)
            p.expect(','); ty2 = p.ptype(); newv = parse_const(p, ty2)
            ct = em.ctype(ty); P_ = '(*(%s*)%s)' % (ct, s.val(ptr))
            rty = TStruct([ty, TInt(1)])
            cn = em.lref(dest); s.locals[cn] = em.ctype(rty); s.ltypes[dest] = rty
            L.append('  %s.f0 = %s; %s.f1 = (%s.f0 == %s); if (%s.f1) %s = %s;' % (cn, P_, cn, cn, s.val(cmpv), cn, P_, s.val(newv)))
            return
        raise NotImplementedError('op ' + op)

    def call(s, p, dest, op):
        em = s.em; L = s.lines
        while p.peek()[0] == 'word' and (p.peek()[1] in FASTMATH or p.peek()[1] in ('fastcc', 'ccc', 'coldcc')): p.next()
        skip_attrs(p)
        rty = p.ptype()
        # rty may be full function type for varargs: ret (args...)  (parsed as TFunc)
        fty = None
        if isinstance(rty, TFunc): fty = rty; rty = fty.ret
        elif isinstance(rty, TPtr) and isinstance(rty.to, TFunc) and p.peek()[0] in ('gname', 'lname') and p.peek(1)[1] == '(' and False:
            pass
        k, callee = p.next()
        if k == 'word' and callee in CONSTEXPR_OPS:
            p.i -= 1
            cc = parse_const(p, TPtr(TInt(8)))
            callee_expr = None; k = 'expr'
        p.expect('(')
        args = []
        byval = {}
        if not p.accept(')'):
            while True:
                at = p.ptype(); pat = skip_attrs(p)
                if 'byval' in pat: byval[len(args)] = pat['byval']
                if isinstance(at, TVoid) or (p.peek()[0] == 'meta'):
                    # metadata arg
                    while p.peek()[1] not in (',', ')'): p.next()
                    args.append(None)
                else:
                    args.append(parse_const(p, at));
                if p.accept(')'): break
                p.expect(',')
        normal = None
        # skip fn attrs up to 'to label'
        while not p.eof():
            k2, v2 = p.next()
            if v2 == 'to' and op == 'invoke':
                p.expect('label'); normal = p.next()[1]; break
        argv = []
        for ai, a in enumerate(args):
            if a is None: continue
            v = s.val(a)
            if ai in byval:
                s.nbyval = getattr(s, 'nbyval', 0) + 1
                tmp = 'byval_tmp%d' % s.nbyval
                bct = em.ctype(byval[ai])
                s.locals[tmp] = bct
                L.append('  %s = *(%s*)%s;' % (tmp, bct, v))
                v = '(%s)&%s' % (em.ctype(a.ty), tmp)
            argv.append(v)
        name = callee[1:] if k == 'gname' else None
        res = None
        if k == 'gname' and name.startswith('llvm.'):
            res = s.intrinsic(name, args, argv, rty, dest)
            if res is False:
                raise NotImplementedError('intrinsic ' + name)
        elif k == 'gname' and name == '__CPROVER_assert':
            a1 = args[1]
            g = a1.ops[0].val if a1.kind == 'expr' else a1.val
            if g in em.m.globals:
                raw = em.m.globals[g]['init'].val[2:-1]
                lit = re.sub(r'\\[0-9A-Fa-f]{2}', '', raw)
            else:
                lit = 'merged assertion'
            L.append('  VT_ASSERT(%s, "%s");' % (argv[0], lit.replace('"', "'")))
        elif k == 'gname' and name == 'vt_cover':
            a1 = args[0]
            g = a1.ops[0].val if a1.kind == 'expr' else a1.val
            raw = em.m.globals[g]['init'].val[2:-1]
            lit = re.sub(r'\\[0-9A-Fa-f]{2}', '', raw)
            L.append('  VT_COVER("%s");' % lit.replace('"', "'"))
        elif k == 'gname' and name.startswith('nondet_') and dest:
            s.setl(dest, rty, '%s()' % name)
            L[-1] += ' /*ND %s %s*/' % (name, em.lref(dest))
        elif k == 'gname' and name in ('_Znwm', '_Znam') and args[0].kind == 'num' and dest and s.typed_new(dest, int(args[0].val)):
            pass
        elif k == 'gname' and name in ('_Znwm', '_Znam', 'malloc') and dest and s.typed_array_new(dest, argv[0], name):
            pass
        else:
            if k == 'gname':
                while callee in em.m.aliases: callee = em.m.aliases[callee]
                fn = em.gname(callee)
                f = em.m.funcs.get(callee)
                if f is not None:
                    # cast args to declared param types
                    cargs = []
                    for i, a in enumerate(argv):
                        if i < len(f.params): cargs.append('(%s)%s' % (em.ctype(f.params[i][0]), a))
                        else: cargs.append(a)
                    argv = cargs
                ce = fn
            elif k == 'lname':
                ft = fty or TFunc(rty, [a.ty for a in args if a is not None], False)
                if s.devirtualize(dest, rty, ft, em.lref(callee), argv):
                    if normal: L.append('  ' + s.goto(normal))
                    return
                ce = '((%s*)%s)' % (em.functype(ft), em.lref(callee))
            else:
                ft = fty or TFunc(rty, [a.ty for a in args if a is not None], False)
                ce = '((%s*)%s)' % (em.functype(ft), em.cexpr(cc))
            e = '%s(%s)' % (ce, ', '.join(argv))
            if dest and not isinstance(rty, TVoid): s.setl(dest, rty, e)
            else: L.append('  %s;' % e)
        if normal: L.append('  ' + s.goto(normal))

    def devirtualize(s, dest, rty, ft, fpexpr, argv):
        """Indirect call -> explicit dispatch over the type-compatible functions of the module (same return and non-receiver
        parameter types; receiver types related by single inheritance, judged from the first-field chain of the LLVM struct
        types).  CBMC's own candidate set (every function with a compatible C signature) makes virtual-heavy code explode.
        A call that reaches none of the candidates is a reported failure, never silently dropped."""
        em = s.em
        if ft.va: return False
        cands = em.indirect_candidates(ft)
        if cands is None: return False
        L = s.lines
        if dest and not isinstance(rty, TVoid):
            cn = em.lref(dest); s.locals[cn] = em.ctype(rty); s.ltypes[dest] = rty
        first = True
        for f in cands:
            fn = em.gname(f.name)
            cargs = ['(%s)%s' % (em.ctype(f.params[i][0]), a) for i, a in enumerate(argv)]
            call = '%s(%s)' % (fn, ', '.join(cargs))
            if dest and not isinstance(rty, TVoid): call = '%s = (%s)%s' % (em.lref(dest), em.ctype(rty), call)
            L.append('  %sif ((void*)%s == (void*)&%s) { %s; }' % ('' if first else 'else ', fpexpr, fn, call))
            first = False
        L.append('  %s{ VT_ASSERT(0, "indirect call to a function outside the type-compatible candidate set"); __CPROVER_assume(0); }' % ('' if first else 'else '))
        return True

    def typed_new(s, dest, size):
        """operator new(C) whose result is immediately used as T*: allocate as (array of) struct T so that CBMC keeps
        the heap object field-sensitive; only when C is a positive multiple of sizeof(T)."""
        em = s.em
        pat = re.compile(r'bitcast i8\* ' + re.escape(dest) + r' to (%"[^"]*"|%[-a-zA-Z$._0-9]+)\*(?!\*)')
        for ln in s.f.body:
            mm = pat.search(ln)
            if mm and mm.group(1) in em.m.types and isinstance(em.m.types[mm.group(1)], TStruct):
                sz = em.sizeof(TNamed(mm.group(1)))
                if sz == 0 or size % sz != 0: continue
                ct = em.ctype(TNamed(mm.group(1)))
                s.lines.append('  _Static_assert(sizeof(%s) == %d, "typed new size");' % (ct, sz))
                s.setl(dest, TPtr(TInt(8)), '(uint8_t*)malloc(sizeof(%s) * %d)' % (ct, size // sz))
                s.lines.append('  __CPROVER_assume(%s != 0);' % em.lref(dest))
                return True
        return False

    def typed_array_new(s, dest, nbytes, fname):
        """operator new / malloc whose result is used as an array of pointers or scalars: allocate a typed array so that CBMC
        does not have to assemble elements from bytes (VT_NEW_ARRAY also applies the optional fixed-capacity model)."""
        em = s.em
        pat = re.compile(r'bitcast i8\* ' + re.escape(dest) + r' to ([^,;]+?)\*(?:\s*$|,)')
        for ln in s.f.body:
            if ' = bitcast i8* ' + dest + ' to ' not in ln: continue
            mm = re.search(r'bitcast i8\* ' + re.escape(dest) + r' to (.+)$', ln.strip())
            if not mm: continue
            tstr = mm.group(1).split(',')[0].strip()
            try:
                t = P(tokenize(tstr)).ptype()
            except Exception:
                continue
            if not isinstance(t, TPtr): continue
            el = em.resolve(t.to)
            if isinstance(el, TPtr) or (isinstance(el, TInt) and el.n in (16, 32, 64)) or (isinstance(el, TFloat) and el.k == 'double'):
                ct = em.ctype(t.to)
                s.setl(dest, TPtr(TInt(8)), 'VT_NEW_ARRAY(%s, %s)' % (ct, nbytes))
                if fname != 'malloc': s.lines.append('  __CPROVER_assume(%s != 0);' % em.lref(dest))
                return True
            return False
        return False

    def intrinsic(s, name, args, argv, rty, dest):
        em = s.em; L = s.lines
        base = name.split('.')[1]
        if base in ('lifetime', 'dbg', 'invariant', 'assume', 'experimental', 'prefetch', 'donothing', 'stackrestore',
                    'var'):
            return True
        if base == 'stacksave': s.setl(dest, rty, '(void*)0'); return True
        if base in ('memcpy', 'memmove', 'memset'):
            if base == 'memset': L.append('  memset(%s, (int)%s, %s);' % (argv[0], argv[1], argv[2]))
            else: L.append('  %s(%s, %s, %s);' % (base, argv[0], argv[1], argv[2]))
            return True
        if base == 'sqrt' and repr(em.resolve(rty)) == 'double':
            s.setl(dest, rty, 'vt_sqrt(%s)' % argv[0]); return True
        if base in ('fabs', 'sqrt', 'floor', 'ceil', 'trunc', 'round', 'cos', 'sin', 'exp', 'log', 'pow', 'rint', 'nearbyint'):
            s.setl(dest, rty, '%s(%s)' % (base, ', '.join(argv))); return True
        if base == 'fmuladd': s.setl(dest, rty, '((%s * %s) + %s)' % tuple(argv)); return True
        if base in ('minnum', 'maxnum'): s.setl(dest, rty, '%s(%s, %s)' % ('fmin' if base == 'minnum' else 'fmax', argv[0], argv[1])); return True
        if base == 'copysign': s.setl(dest, rty, 'copysign(%s, %s)' % (argv[0], argv[1])); return True
        if base in ('umax', 'umin'):
            s.setl(dest, rty, '(%s)ir2c_%s(%s, %s)' % (em.ctype(rty), base, argv[0], argv[1])); return True
        if base in ('smax', 'smin'):
            n = em.resolve(rty).n
            s.setl(dest, rty, '(%s)ir2c_%s((int%d_t)%s, (int%d_t)%s)' % (em.ctype(rty), base, n, argv[0], n, argv[1])); return True
        if base == 'abs':
            n = em.resolve(rty).n
            s.setl(dest, rty, '(%s)((int%d_t)%s < 0 ? -(int%d_t)%s : (int%d_t)%s)' % (em.ctype(rty), n, argv[0], n, argv[0], n, argv[0])); return True
        if base == 'expect': s.setl(dest, rty, argv[0]); return True
        if base == 'trap': L.append('  __CPROVER_assume(0); abort();'); return True
        if base == 'objectsize': s.setl(dest, rty, '(%s)-1' % em.ctype(rty)); return True
        if base in ('uadd', 'usub', 'umul', 'sadd', 'ssub', 'smul'):
            n = em.resolve(args[0].ty).n
            cn = em.lref(dest); s.locals[cn] = em.ctype(rty); s.ltypes[dest] = rty
            bi = '__builtin_%s_overflow' % {'uadd': 'add', 'usub': 'sub', 'umul': 'mul', 'sadd': 'add', 'ssub': 'sub', 'smul': 'mul'}[base]
            ct = ('uint%d_t' if base[0] == 'u' else 'int%d_t') % n
            L.append('  { %s r_; %s.f1 = %s((%s)%s, (%s)%s, &r_); %s.f0 = (uint%d_t)r_; }' % (ct, cn, bi, ct, argv[0], ct, argv[1], cn, n))
            return True
        if base in ('ctlz', 'cttz', 'ctpop', 'bswap', 'fshl', 'fshr'):
            n = em.resolve(rty).n
            if base == 'ctlz':
                s.setl(dest, rty, '(%s)(%s ? __builtin_clzll((uint64_t)%s) - %d : %d)' % (em.ctype(rty), argv[0], argv[0], 64 - n, n)); return True
            if base == 'cttz':
                s.setl(dest, rty, '(%s)(%s ? __builtin_ctzll((uint64_t)%s) : %d)' % (em.ctype(rty), argv[0], argv[0], n)); return True
            if base == 'ctpop':
                s.setl(dest, rty, '(%s)__builtin_popcountll((uint64_t)%s)' % (em.ctype(rty), argv[0])); return True
            if base == 'bswap':
                s.setl(dest, rty, '(%s)__builtin_bswap%d(%s)' % (em.ctype(rty), n, argv[0])); return True
        return False


def main():
    import json
    for a in sys.argv[3:]:
        if a.startswith('--uf='): UF_OPS.update(x for x in a[5:].split(',') if x)
    src = open(sys.argv[1]).read()
    m = parse_module(src)
    em = Emitter(m)
    c = em.translate()
    open(sys.argv[2], 'w').write(c)
    nd = []
    for i, ln in enumerate(c.split('\n'), 1):
        mm = re.search(r'/\*ND (\w+) (\w+)\*/', ln)
        if mm: nd.append({'line': i, 'fn': mm.group(1), 'var': mm.group(2)})
    meta = {
        'defined': [n[1:].strip('"') for n, f in m.funcs.items() if f.body is not None],
        'externs': [n[1:].strip('"') for n, f in m.funcs.items() if f.body is None and not n.startswith('@llvm.')],
        'extern_globals': [n[1:].strip('"') for n, g in m.globals.items() if g['extern']],
        'extern_tls': [n[1:].strip('"') for n, g in m.globals.items() if g['extern'] and g.get('tls')],
        'global_ctors': '@llvm.global_ctors' in m.globals,
        'nondet_sites': nd,
        'ir_lines': src.count('\n'), 'c_lines': c.count('\n'),
    }
    json.dump(meta, open(sys.argv[2] + '.meta.json', 'w'), indent=1)


if __name__ == '__main__':
    main()
