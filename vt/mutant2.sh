#!/bin/sh
# usage: vt/mutant2.sh <patch> <property> [check args...]
# runs a check against a seeded change WITHOUT touching /repo: a scratch source worktree of /repo's HEAD gets the patch,
# the check compiles from it (VT_REPO) and writes its replays to a scratch directory; both are removed afterwards.
patch="$(readlink -f "$1")"; prop="$2"; shift 2
wt=$(mktemp -d /tmp/mut-XXXXXX); rmdir "$wt"
git -C /repo worktree add -q --detach "$wt" HEAD || exit 9
( cd "$wt" && { git apply -3 "$patch" 2>/dev/null || git apply "$patch"; } ) || { echo "patch does not apply"; git -C /repo worktree remove --force "$wt"; exit 9; }
cd /verif && VT_REPO="$wt" VT_REPLAY_ROOT="$wt.replays" ./check "$prop" --no-evidence "$@"; rc=$?
git -C /repo worktree remove --force "$wt"; rm -rf "$wt.replays"
echo "mutant exit code: $rc"
exit $rc
