/* Contract stubs for acos/sin/cos (renamed to vt_acos/vt_sin/vt_cos in the module): functionally consistent uninterpreted
 * functions over the argument bits with range facts only: acos: [-1,1] -> [0,pi], acos(x) == 0 exactly for x == 1,
 * > 0 otherwise; sin/cos: finite -> [-1,1], sin(0) == 0, cos(0) == 1.  Enough for control-flow/consistency claims, not
 * for geometry.  Native builds compute the real functions. */
#include <math.h>
#include <stdint.h>
#ifdef __CPROVER__
uint64_t __CPROVER_uninterpreted_vt_acos(uint64_t); uint64_t __CPROVER_uninterpreted_vt_sin(uint64_t); uint64_t __CPROVER_uninterpreted_vt_cos(uint64_t);
typedef union { double d; uint64_t u; } vt_du;
double vt_acos(double x)
{
    vt_du a, r; a.d = x;
    if (x == 1.0) return 0.0;
    r.u = __CPROVER_uninterpreted_vt_acos(a.u);
    if (x >= -1.0 && x < 1.0) { __CPROVER_assume(r.d > 0.0 && r.d <= 3.14159265358979323846); if (x == -1.0) __CPROVER_assume(r.d == 3.14159265358979323846); if (x == 0.0) __CPROVER_assume(r.d == 1.5707963267948966); }
    else __CPROVER_assume(r.d != r.d);
    return r.d;
}
double vt_sin(double x)
{
    vt_du a, r; a.d = x;
    if (x == 0.0) return x;
    r.u = __CPROVER_uninterpreted_vt_sin(a.u);
    if (x == x && x - x == 0.0) __CPROVER_assume(r.d >= -1.0 && r.d <= 1.0); else __CPROVER_assume(r.d != r.d);
    return r.d;
}
double vt_cos(double x)
{
    vt_du a, r; a.d = x;
    if (x == 0.0) return 1.0;
    r.u = __CPROVER_uninterpreted_vt_cos(a.u);
    if (x == x && x - x == 0.0) __CPROVER_assume(r.d >= -1.0 && r.d <= 1.0); else __CPROVER_assume(r.d != r.d);
    return r.d;
}
#else
double vt_acos(double x) { return acos(x); }
double vt_sin(double x) { return sin(x); }
double vt_cos(double x) { return cos(x); }
#endif
