/* Native side of the pipeline: replay of CBMC counterexamples and translator validation.
 * usage: prog replay <file>      (lines: "<fn> <hex64>")
 *        prog random <seed> <count>
 * Output: one line per event so that two builds of the same module can be diffed. */
#include <stdint.h>
#include <stdio.h>
#include <stdlib.h>
#include <string.h>
#include <unistd.h>
#include <sys/wait.h>
#ifndef VT_ENTRY
#error "VT_ENTRY"
#endif
void VT_ENTRY(void);
int vt_replay_mode;
static uint64_t *rp_val; static char (*rp_fn)[24]; static int rp_n, rp_i;
static uint64_t rng;
static int n_events;
static uint64_t next_u64(void) { rng ^= rng << 13; rng ^= rng >> 7; rng ^= rng << 17; return rng; }
static void done(const char *why) { printf("END %s consumed=%d\n", why, rp_i); fflush(stdout); _exit(0); }
void vt_native_assume(int c) { if (!c) done("assume-false"); }
void vt_native_assert(int c, const char *m) { printf("A %d %s\n", c, m); if (++n_events > 100000) done("too-many-events"); }
void vt_native_cover(const char *m) { printf("C %s\n", m); }
void vt_native_fatal(const char *m) { printf("FATAL %s\n", m); done("fatal"); }
void vt_stub_divergence(const char *m) { printf("STUB-DIVERGENCE %s\n", m); }
static const double dpool[] = {0.0, -0.0, 1.0, -1.0, 0.5, 0.25, 2.0, 3.0, -3.0, 3.14159265358979323846, -3.14159265358979323846,
                               1.5707963267948966, -1.5707963267948966, 1e-9, 1e9, 0.1, 0.75, 4.0, 7.0, -2.5};
static uint64_t pop(const char *fn, int isdouble, int bits)
{
    if (vt_replay_mode)
    {
        while (rp_i < rp_n && !strcmp(rp_fn[rp_i], "nondet_stub_uint")) rp_i++;   /* draws internal to CBMC-side contract stubs */
        if (rp_i >= rp_n) { printf("DESYNC out of values at %s\n", fn); done("desync"); }
        if (strcmp(rp_fn[rp_i], fn)) { printf("DESYNC want %s have %s\n", fn, rp_fn[rp_i]); done("desync"); }
        return rp_val[rp_i++];
    }
    rp_i++;
    uint64_t r = next_u64();
    unsigned sel = (unsigned)(next_u64() >> 60);
    if (isdouble)
    {
        if (sel < 9) { double d = dpool[r % (sizeof dpool / sizeof dpool[0])]; memcpy(&r, &d, 8); }
        else if (sel < 13) { double d = (double)(int64_t)(r % 33) - 16.0; d /= (double)(1 + (next_u64() & 7)); memcpy(&r, &d, 8); }
        return r;
    }
    if (sel < 8) return r % 8;
    if (sel < 11) return (uint64_t)(-(int64_t)(r % 5));
    if (sel < 13) return r % 64;
    (void)bits;
    return r;
}
int nondet_int(void) { return (int)pop("nondet_int", 0, 32); }
unsigned nondet_uint(void) { return (unsigned)pop("nondet_uint", 0, 32); }
unsigned char nondet_uchar(void) { return (unsigned char)pop("nondet_uchar", 0, 8); }
long nondet_long(void) { return (long)pop("nondet_long", 0, 64); }
unsigned long nondet_ulong(void) { return (unsigned long)pop("nondet_ulong", 0, 64); }
double nondet_double(void) { uint64_t u = pop("nondet_double", 1, 64); double d; memcpy(&d, &u, 8); return d; }
int main(int argc, char **argv)
{
    setvbuf(stdout, 0, _IOLBF, 1 << 12);
    if (argc >= 3 && !strcmp(argv[1], "replay"))
    {
        FILE *f = fopen(argv[2], "r");
        if (!f) { perror("open"); return 2; }
        int cap = 1 << 16; rp_val = malloc(cap * 8); rp_fn = malloc(cap * 24);
        char fn[64]; unsigned long long v;
        while (rp_n < cap && fscanf(f, "%23s %llx", fn, &v) == 2) { strcpy(rp_fn[rp_n], fn); rp_val[rp_n++] = v; }
        vt_replay_mode = 1;
        VT_ENTRY();
        done("returned");
    }
    if (argc >= 4 && !strcmp(argv[1], "random"))
    {
        uint64_t seed = strtoull(argv[2], 0, 10); int cnt = atoi(argv[3]);
        for (int i = 0; i < cnt; i++)
        {
            fflush(stdout);
            pid_t pid = fork();
            if (pid == 0)
            {
                rng = (seed + (uint64_t)i) * 0x9E3779B97F4A7C15ULL + 0x1234567ULL; next_u64(); next_u64();
                printf("RUN %d\n", i);
                VT_ENTRY();
                done("returned");
            }
            int st = 0; waitpid(pid, &st, 0);
            if (WIFSIGNALED(st)) printf("CRASH\n");
        }
        return 0;
    }
    fprintf(stderr, "usage\n");
    return 2;
}
/* the clang-native build of the IR module calls these as ordinary functions */
void __CPROVER_assume(int c) { vt_native_assume(c); }
void __CPROVER_assert(int c, const char *m) { vt_native_assert(c, m); }
void vt_cover(const char *m) { vt_native_cover(m); }
