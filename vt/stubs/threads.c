/* Lock model of the two-thread sequentialization (vt/include/vt_seq.h): pthread_mutex_lock/unlock are renamed to these
 * in the module.  The first word of the mutex is the lock flag.  Acquiring a lock that is held means the acquiring thread
 * would block; in the sequentialization that schedule is infeasible and is cut by an assumption.  Both the CBMC run and the
 * native replay use this model (the native program is single-threaded). */
#include <stdint.h>
#ifndef __CPROVER__
void vt_native_assume(int); void vt_native_cover(const char *);
#define __CPROVER_assume(c) vt_native_assume(!!(c))
#define VT_COVER(m) vt_native_cover(m)
#elif defined(VT_WITNESS)
#define VT_COVER(m) __CPROVER_assert(0, "COVER " m)
#else
#define VT_COVER(m) ((void)0)
#endif
int vt_lock_ops;
uint32_t vt_mutex_lock(uint32_t *m)
{
    if (*m != 0) VT_COVER("a thread found the lock held by the preempted thread (schedule cut: it would block)");
    __CPROVER_assume(*m == 0); *m = 1; ++vt_lock_ops; return 0;
}
uint32_t vt_mutex_unlock(uint32_t *m) { *m = 0; return 0; }
/* reader/writer locks (std::shared_mutex): word 0 = number of readers, word 1 = writer flag */
uint32_t vt_rwlock_rdlock(uint32_t *m) { if (m[1] != 0) VT_COVER("a reader found the lock write-held (schedule cut)"); __CPROVER_assume(m[1] == 0); ++m[0]; return 0; }
uint32_t vt_rwlock_wrlock(uint32_t *m) { __CPROVER_assume(m[1] == 0 && m[0] == 0); m[1] = 1; return 0; }
uint32_t vt_rwlock_unlock(uint32_t *m) { if (m[1]) m[1] = 0; else if (m[0]) --m[0]; return 0; }
