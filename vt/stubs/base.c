/* Standard environment stubs shared by the CBMC run and the native replay/validation builds.
 * Every stub here is a stated assumption of the claim (DESIGN.md §2.5). */
#include <stdint.h>
#include <stdlib.h>
#include <string.h>
#ifdef __CPROVER__
#define VT_FATAL(msg) do { __CPROVER_assert(0, msg); __CPROVER_assume(0); } while (0)
#else
void vt_native_fatal(const char *);
#define VT_FATAL(msg) vt_native_fatal(msg)
void vt_native_assume(int);
#define __CPROVER_assume(c) vt_native_assume(!!(c))
#endif
int vt_thrown;
/* allocation never fails (allocation failure is outside every claim) */
#if defined(VT_NEW_CAP) && defined(__CPROVER__)
/* Query option new_cap: every untyped operator new returns a block of exactly VT_NEW_CAP bytes (requests above the cap
 * are a reported bound violation). Symbolic-size heap objects make the formula explode; the price is that overruns
 * inside the slack between the requested size and the cap are not detected in such queries (stated in the evidence). */
uint8_t *_Znwm(uint64_t n)
{
    if (n > VT_NEW_CAP) { __CPROVER_assert(0, "bounded std model capacity exceeded (operator new above VT_NEW_CAP)"); __CPROVER_assume(0); }
    uint8_t *p = malloc(VT_NEW_CAP); __CPROVER_assume(p != 0); return p;
}
uint8_t *_Znam(uint64_t n) { return _Znwm(n); }
#else
uint8_t *_Znwm(uint64_t n) { uint8_t *p = malloc(n); __CPROVER_assume(p != 0); return p; }
uint8_t *_Znam(uint64_t n) { uint8_t *p = malloc(n); __CPROVER_assume(p != 0); return p; }
#endif
void _ZdlPv(uint8_t *p) { free(p); }
void _ZdaPv(uint8_t *p) { free(p); }
void _ZdlPvm(uint8_t *p, uint64_t n) { free(p); }
void _ZdaPvm(uint8_t *p, uint64_t n) { free(p); }
/* exceptions: a throw ends the path; vt_thrown lets a harness assert that a throw happened */
uint8_t *__cxa_allocate_exception(uint64_t n) { uint8_t *p = malloc(n); __CPROVER_assume(p != 0); return p; }
void __cxa_free_exception(uint8_t *p) { }
#ifdef VT_THROW_ENDS_PATH_SILENTLY
void __cxa_throw(uint8_t *a, uint8_t *b, uint8_t *c) { vt_thrown = 1; __CPROVER_assume(0); abort(); }
#else
void __cxa_throw(uint8_t *a, uint8_t *b, uint8_t *c) { vt_thrown = 1; VT_FATAL("exception thrown"); abort(); }
#endif
void __cxa_rethrow(void) { __CPROVER_assume(0); abort(); }
uint8_t *__cxa_begin_catch(uint8_t *p) { return p; }
void __cxa_end_catch(void) {}
void __cxa_pure_virtual(void) { VT_FATAL("pure virtual call"); }
void _ZSt9terminatev(void) { VT_FATAL("std::terminate"); }
void _ZSt20__throw_length_errorPKc(uint8_t *m) { VT_FATAL("throw length_error"); }
void _ZSt19__throw_logic_errorPKc(uint8_t *m) { VT_FATAL("throw logic_error"); }
void _ZSt24__throw_out_of_range_fmtPKcz(uint8_t *m, ...) { VT_FATAL("throw out_of_range"); }
void _ZSt20__throw_out_of_rangePKc(uint8_t *m) { VT_FATAL("throw out_of_range"); }
void _ZSt28__throw_bad_array_new_lengthv(void) { VT_FATAL("throw bad_array_new_length"); }
void _ZSt17__throw_bad_allocv(void) { VT_FATAL("throw bad_alloc"); }
void _ZSt25__throw_bad_function_callv(void) { VT_FATAL("throw bad_function_call"); }
void _ZSt16__throw_bad_castv(void) { VT_FATAL("throw bad_cast"); }
void _ZSt20__throw_system_errori(uint32_t e) { VT_FATAL("throw system_error"); }
void vt_model_overflow(void) { VT_FATAL("bounded std model capacity exceeded"); }
void vt_model_out_of_range(void) { VT_FATAL("throw out_of_range (vector::at)"); }
uint32_t __cxa_atexit(void *f, void *a, void *d) { return 0; }
uint32_t __cxa_guard_acquire(uint64_t *g) { return *(uint8_t *)g == 0; }
void __cxa_guard_release(uint64_t *g) { *(uint8_t *)g = 1; }
void __cxa_guard_abort(uint64_t *g) { }
void _ZNSt8ios_base4InitC1Ev(void *p) {}
void _ZNSt8ios_base4InitD1Ev(void *p) {}
/* threads are not modelled: starting one is a fatal event of the harness (DESIGN C18/C19) */
void _ZNSt6thread15_M_start_threadESt10unique_ptrINS_6_StateESt14default_deleteIS1_EEPFvvE(void *a, void *b, void *c) { VT_FATAL("std::thread start not modelled"); }
void _ZNSt6thread4joinEv(void *a) { }
void _ZNSt6thread6_StateD2Ev(void *a) { }

/* sqrt: CBMC's built-in model is a relation, not a function (two calls on equal arguments may differ), so every sqrt of the
 * analysed module goes through this functionally consistent contract stub: for x >= 0 the result is a non-NaN value >= 0,
 * zero exactly for x == 0, infinite exactly for x == +inf; NaN for x < 0 or NaN.  Monotonicity/accuracy are NOT assumed.
 * Native builds compute the real sqrt and flag counterexamples whose stub value differs (STUB-DIVERGENCE). */
#include <math.h>
#ifdef __CPROVER__
uint64_t __CPROVER_uninterpreted_vt_sqrt(uint64_t);
unsigned nondet_stub_uint(void);
double vt_sqrt(double x)
{
    union { double d; uint64_t u; } a, r;
    a.d = x;
    if (x == 0.0) return x;
    r.u = __CPROVER_uninterpreted_vt_sqrt(a.u);
    if (x > 0.0) { __CPROVER_assume(r.d > 0.0); __CPROVER_assume((x == (1.0 / 0.0)) == (r.d == (1.0 / 0.0))); }
    else __CPROVER_assume(r.d != r.d);
#ifdef VT_SQRT_ACCURATE
    /* optional accuracy contract (costs three multiplications per call): r*r within 4 ulp-ish of x */
    if (x > 0.0 && x < 1e300) { double rr = r.d * r.d; __CPROVER_assume(rr >= x * (1.0 - 4e-16) && rr <= x * (1.0 + 4e-16)); }
#endif
    if (x > 0.0)
    {
        unsigned k;
        k = nondet_stub_uint();   /* stub-internal draw: recorded in traces, skipped by the native replay (the IR build calls the real sqrt) */
#ifdef VT_STUB_EXACT_REGION
        /* second attempt after a counterexample the real sqrt does not reproduce: only perfect squares k*k, k <= 64, with r == k */
        __CPROVER_assume(k >= 1 && k <= 64 && x == (double)(k * k));
        r.d = (double)k;
#endif
    }
    return r.d;
}
#else
double vt_sqrt(double x) { return sqrt(x); }
#endif

#if defined(__CPROVER__) && defined(VT_BOUNDED_MEMMOVE)
/* bounded word-wise memmove (at most 8 32-bit words; larger or unaligned sizes are a reported bound failure) */
void *vt_bounded_memmove(void *d, const void *s, unsigned long n)
{
    if (n > 32 || (n & 3) != 0) { __CPROVER_assert(0, "bounded memmove: size within the model (<= 8 words)"); __CPROVER_assume(0); }
    uint32_t *dd = (uint32_t *)d; const uint32_t *ss = (const uint32_t *)s; unsigned long k = n >> 2;
    if (dd < ss) { for (unsigned i = 0; i < 8; ++i) if (i < k) dd[i] = ss[i]; }
    else { for (unsigned i = 8; i-- > 0;) if (i < k) dd[i] = ss[i]; }
    return d;
}
#endif

/* out-of-line std::string members that -fno-inline modules call instead of inlining (layout: data pointer, length, 16-byte local buffer) */
uint8_t *_ZNKSt7__cxx1112basic_stringIcSt11char_traitsIcESaIcEE5c_strEv(uint8_t **s) { return *s; }
void _ZNSt7__cxx1112basic_stringIcSt11char_traitsIcESaIcEEC2Ev(uint8_t **s) { s[0] = (uint8_t *)(s + 2); s[1] = 0; *(uint8_t *)(s + 2) = 0; }
