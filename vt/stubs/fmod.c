/* Contract stub for fmod (CBMC's own fmod model fails |fmod(x,y)| < |y|).  The module's calls to fmod are renamed
 * to vt_fmod.  Contract: finite result r with |r| < |y|, |r| <= |x|, r == x when |x| < |y|, r == 0 or sign(r) == sign(x).
 * Native builds compute the real fmod; in replay mode a counterexample whose stub value differs from the real
 * function is flagged (STUB-DIVERGENCE) and not reported as a violation. */
#include <math.h>
#include <string.h>
double nondet_double(void);
#ifdef __CPROVER__
double vt_fmod(double x, double y)
{
    double r;
    r = nondet_double();
    __CPROVER_assume(r == r && r - r == 0.0);
    double ax = x < 0 ? -x : x, ay = y < 0 ? -y : y, ar = r < 0 ? -r : r;
    __CPROVER_assume(ar < ay);
    __CPROVER_assume(!(ax < ay) || r == x);
    __CPROVER_assume(r == 0.0 || ((r < 0) == (x < 0)));
    __CPROVER_assume(ar <= ax);
#ifdef VT_STUB_EXACT_REGION
    /* second attempt after a counterexample that the real fmod does not reproduce: search only where the contract pins the
     * value exactly (|x| < |y|, r == x), so that a counterexample found now replays natively */
    __CPROVER_assume(ax < ay);
#endif
    return r;
}
#else
extern int vt_replay_mode;
void vt_stub_divergence(const char *);
double vt_fmod(double x, double y)
{
    double r = nondet_double();
    double real = fmod(x, y);
    if (vt_replay_mode && memcmp(&r, &real, sizeof r) != 0 && !(r == real)) vt_stub_divergence("fmod");
    return real;
}
#endif
