#!/usr/bin/env python3
"""Regenerates /verif/MANIFEST.json from the table below (run after adding a property module)."""
import importlib, json, os, sys
VERIF = os.path.dirname(os.path.dirname(os.path.abspath(__file__)))
sys.path.insert(0, VERIF)

NOT_APPLICABLE = {
}
PENDING = 'check not built yet in this revision (see DESIGN.md §4 for the plan)'
ALL = ['C%02d' % i for i in range(1, 21)]


def main():
    checks = []; na = []
    for pid in ALL:
        if pid in NOT_APPLICABLE:
            na.append(dict(property_id=pid, reason=NOT_APPLICABLE[pid])); continue
        try:
            mod = importlib.import_module('vt.props.' + pid)
        except ModuleNotFoundError:
            na.append(dict(property_id=pid, reason=PENDING)); continue
        checks.append(dict(
            property_id=pid,
            quick_cmd='./check %s --tier quick' % pid,
            thorough_cmd='./check %s --tier thorough' % pid,
            evidence_file='evidence/%s.json' % pid,
            replay_cmd_template='./check %s --replay {path}' % pid,
            engine='ir2c+cbmc',
            level_claimed=dict(category='model_checking',
                               text='Bounded symbolic model checking of the real code: ' + mod.CLAIM,
                               design_ref='DESIGN.md §4 ' + pid),
            level_note='Bounded (sizes/unwinding stated per query in the evidence); outside the claim: ' + mod.OUT +
                       '. Trusted: clang-14 -O1 IR of /repo sources, ir2c translator (cross-validated natively every run), CBMC 6.11 + SAT, stubs listed in evidence.',
            technique='solver-based bounded model checking: clang LLVM-IR of the real OMPL functions -> C (ir2c) -> CBMC/SAT, '
                      'symbolic inputs, case-split sizes, witness twins, native replay of counterexamples'))
    man = dict(
        version=1,
        setup_cmd='python3 vt/selftest.py',
        hooks=dict(guard='OMPL_VERIF', enable='checks compile /repo sources with -DOMPL_VERIF (clang++-14 -emit-llvm); one add-only hook: the start-state diagnostics (std::stringstream) of PlannerInputStates::nextStart are left out under the guard',
                   baseline_off_cmd='cmake --build /repo/_build -j16 && ctest --test-dir /repo/_build -j8 --timeout 900',
                   source_commits=['168716105'], add_only=True),
        engines=[dict(name='ir2c+cbmc', path='vt/pipeline.py', serves_properties=[c['property_id'] for c in checks],
                      kind_free_text='clang++-14 -O1 -emit-llvm on the real sources + harness, llvm-link/opt pruning, own LLVM-IR->C translator (vt/ir2c.py), CBMC 6.11 with cadical/kissat/minisat')],
        checks=checks,
        not_applicable=na,
        notes='All verdicts are bounded; see DESIGN.md §1. Genuine defects found: known_findings.json.')
    json.dump(man, open(os.path.join(VERIF, 'MANIFEST.json'), 'w'), indent=1)
    print('checks:', [c['property_id'] for c in checks]); print('n/a:', [n['property_id'] for n in na])


if __name__ == '__main__':
    main()
