#!/usr/bin/env python3
"""keep_mutant.py <prop> <n> <mutdir> <detected:yes|no|after-strengthening> <caught_by...>  -> /verif/seeded/<prop>-<n>/"""
import json, os, shutil, sys, re
prop, n, src, detected = sys.argv[1:5]; caught = ' '.join(sys.argv[5:])
dst = '/verif/seeded/%s-%s' % (prop, n); os.makedirs(dst, exist_ok=True)
for f in ('patch.diff', 'demo.cpp', 'README.md', 'confirm.log'):
    if os.path.exists(os.path.join(src, f)): shutil.copy(os.path.join(src, f), dst)
conf = open(os.path.join(src, 'confirm.log')).read() if os.path.exists(os.path.join(src, 'confirm.log')) else ''
readme = open(os.path.join(src, 'README.md')).read() if os.path.exists(os.path.join(src, 'README.md')) else ''
meta = dict(property=prop, origin='independent sub-agent given only the property text and a scratch worktree',
            needs_to_manifest=(re.sub(r'\s+', ' ', readme)[:1500]),
            confirmed=('CONFIRM: OK' in conf),
            what_i_ran='vt/confirm_mutant.sh in a scratch worktree: git apply, cmake --build, full ctest (must pass), demo must fail with the change and pass without; then vt/mutant2.sh <patch> %s (the check compiles from a scratch source worktree of /repo HEAD with the patch applied, VT_REPO; /repo itself untouched)' % prop,
            confirm_summary=[l for l in conf.split('\n') if l.startswith('CONFIRM') or 'tests passed' in l],
            detected_by_check=detected, caught_by=caught)
json.dump(meta, open(os.path.join(dst, 'meta.json'), 'w'), indent=1)
print('kept', dst)
