#!/bin/sh
# usage: vt/mutant.sh <patch> <property> [check args...]   -- applies a seeded change to /repo, runs the check, reverts
patch="$1"; prop="$2"; shift 2
cd /repo || exit 9
if [ -n "$(git status --porcelain --untracked-files=no)" ]; then echo "repo not clean"; exit 9; fi
git apply -3 "$patch" 2>/dev/null || git apply "$patch" || { echo "patch does not apply"; exit 9; }
cd /verif && ./check "$prop" --no-evidence "$@"; rc=$?
git -C /repo reset -q --hard HEAD
echo "mutant exit code: $rc"
exit $rc
