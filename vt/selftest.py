#!/usr/bin/env python3
"""setup_cmd: nothing to build (the framework is Python + tools already installed); verify the tools are present."""
import shutil, sys
missing = [t for t in ('clang++-14', 'clang-14', 'llvm-link-14', 'opt-14', 'llvm-cxxfilt-14', 'cbmc', 'gcc', 'kissat') if not shutil.which(t)]
if missing:
    print('missing tools:', missing); sys.exit(1)
print('vt selftest ok')
